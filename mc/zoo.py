"""Model zoo across all public model classes, with builders and deterministic observers (C14, C15, C19, C20)."""
import numpy as np
import pandas as pd

from mc import tables, uni
from mc.lib import make_biv


class Raised:
    """Observation of an exception (compared by type name only)."""

    def __init__(self, e):
        self.name = type(e).__name__
        self.msg = str(e)[:120]

    def __eq__(self, o):
        return isinstance(o, Raised) and o.name == self.name

    def __repr__(self):
        return f'Raised({self.name})'


def attempt(f, *a, **k):
    try:
        return f(*a, **k)
    except Exception as e:
        return Raised(e)


# ------------------------------------------------------------------------------------------------
# specs

UNI_DATA = [('normal', 0.0, 1.0, 30), ('gamma2', 5.0, 1e-3, 30), ('const', 3.0, 20), ('const', 0.1, 20), ('const', 0.7, 6),
            ('normal', 0.0, 1e-9, 30),
            ('beta_u', -1e3, 1e3, 40)]
UNI_MODELS_QUICK = [('beta',), ('gamma',), ('gaussian',), ('loglaplace',), ('student_t',), ('uniform',), ('truncated',),
                    ('truncated', 'bounds'), ('kde', None, None, False), ('kde', 'silverman', None, False),
                    ('kde', 0.5, None, False), ('kde', None, 12, False), ('kde', 'scott', None, True),
                    ('kde', 'np.float32:0.25', None, False), ('kde', 'callable:half-scott', None, False),
                    ('univariate', 'default'), ('univariate', 'parametric'), ('univariate', 'cands-instances')]
BIV = [('clayton', 0.5), ('clayton', 4.0), ('gumbel', 1.0), ('gumbel', 2.5), ('frank', -5.74), ('frank', 3.0),
       ('clayton', None), ('gumbel', None), ('frank', None),
       # edge parameters reached by fitting perfectly comonotone data: Clayton theta = inf, Frank theta at its upper bound
       ('clayton', 'comonotone'), ('frank', 'comonotone')]
GM_CFG = ('gaussian-class', 'default', 'kde-instance', 'dict', 'uniform-name', 'truncated-class')
GM_TABLES = [(2, 'equi+', 'rotated', (), 30, 'str'), (3, 'mixed', 'rotated', (1,), 30, 'int'),
             (3, 'ar1', 'normal', (), 30, 'str')]
VINE_TABLES = [(2, 'equi+', 'rotated', (), 40, 'str'), (3, 'mixed', 'rotated', (), 40, 'plain'),
               (4, 'ar1', 'normal', (), 40, 'str')]
VINE_TYPES = ('center', 'direct', 'regular')


def zoo(tier, kinds=('uni', 'biv', 'gm', 'vine'), unfitted=True):
    out = []
    if 'uni' in kinds:
        ms = UNI_MODELS_QUICK if tier == 'quick' else uni.MODEL_ZOO_THOROUGH + [('kde', 0.5, None, False),
                                                                              ('kde', None, 12, False)]
        for m in ms:
            for d in UNI_DATA:
                out.append(('uni', m, d))
            if unfitted:
                out.append(('uni', m, None))
        # models that were fitted on far-away data and queried before the fit that is serialised
        for m in (('kde', None, None, False), ('kde', 'silverman', 30, False), ('truncated',), ('beta',), ('uniform',),
                  ('univariate', 'default'), ('univariate', 'cands-instances')):
            out.append(('uni', m, ('normal', 0.0, 1.0, 30), ('normal', -25.0, 1.0, 30)))
            out.append(('uni', m, ('normal', 0.0, 1.0, 30), ('const', 3.0, 20)))
        # weights together with sample_size (which must then equal the number of rows)
        out.append(('uni', ('kde', 'scott', 30, True), ('normal', 0.0, 1.0, 30)))
    if 'biv' in kinds:
        out += [('biv', f, t) for f, t in BIV if unfitted or t is not None]
    if 'gm' in kinds:
        for c in GM_CFG:
            for t in GM_TABLES:
                out.append(('gm', c, t))
        for c in ('default', 'kde-instance'):
            out.append(('gm', c, GM_TABLES[2], (3, 'equi-', 'rotated', (), 30, 'str')))
        if unfitted:
            out.append(('gm', 'default', None))
    if 'vine' in kinds:
        for v in VINE_TYPES:
            for t in VINE_TABLES:
                out.append(('vine', v, t))
            # the model was fitted on a table with other marginals (same width) before: spec[3] = that earlier table
            out.append(('vine', v, VINE_TABLES[1], (3, 'ar1', 'normal', (), 35, 'plain')))
            if unfitted:
                out.append(('vine', v, None))
    return out


def training_data(spec):
    k = spec[0]
    if k == 'uni':
        return None if spec[2] is None else uni.dataset(spec[2])
    if k == 'gm' or k == 'vine':
        if spec[2] is None:
            return None
        if spec[2][0] == 'ndarray':
            df = tables.gaussian_copula_table(tuple(spec[2][1:]))[0]
            df.columns = list(range(df.shape[1]))          # what a model fitted on the bare array calls its columns
            return df
        return tables.gaussian_copula_table(spec[2])[0]
    return None


def build(spec, random_state=None):
    """Fresh model for the spec, fitted unless the data part is None."""
    import warnings
    k = spec[0]
    if k == 'uni':
        x = training_data(spec)
        m = uni.make_model(spec[1], x if x is not None else np.linspace(0, 1, 20), random_state=random_state)
        if x is not None:
            if len(spec) > 3:
                # fitted on other data and QUERIED before (spec[3] = that earlier data set)
                first = uni.dataset(spec[3])
                np.random.seed(1234)
                m.fit(first.copy())
                attempt(m.cumulative_distribution, np.quantile(first, [0.1, 0.5, 0.9]))
                attempt(m.percent_point, np.array([0.2, 0.7]))
                attempt(m.probability_density, np.quantile(first, [0.3]))
                attempt(m.sample, 2)
            np.random.seed(1234)
            m.fit(x.copy())
        return m
    if k == 'biv':
        if spec[2] is None:
            from copulas.bivariate.base import Bivariate
            return Bivariate(copula_type=spec[1], random_state=random_state)
        if spec[2] == 'comonotone':
            import warnings as _w
            from copulas.bivariate.base import Bivariate
            c = Bivariate(copula_type=spec[1], random_state=random_state)
            u = np.linspace(0.02, 0.98, 20)
            with _w.catch_warnings():
                _w.simplefilter('ignore')
                c.fit(np.column_stack([u, u]))
            return c
        return make_biv(spec[1], spec[2], random_state=random_state)
    if k == 'gm':
        from copulas.multivariate import GaussianMultivariate
        if spec[2] is None:
            return GaussianMultivariate(random_state=random_state)
        if len(spec) > 3:
            first = tables.gaussian_copula_table(spec[3])[0]
            first.columns = list(training_data(spec).columns)
            gm = tables.fit_gm(first, spec[1], random_state=random_state)
            gm.fit(training_data(spec).copy())
            return gm
        return tables.fit_gm(training_data(spec), spec[1], random_state=random_state)
    if k == 'vine':
        from copulas.multivariate import VineCopula
        with warnings.catch_warnings():
            warnings.simplefilter('ignore')
            v = VineCopula(spec[1], random_state=random_state)
            if spec[2] is not None:
                if len(spec) > 3:
                    first = tables.gaussian_copula_table(spec[3])[0]
                    first.columns = list(training_data(spec).columns)
                    v.fit(first)
                v.fit(training_data(spec))
        return v
    raise ValueError(spec)


# ------------------------------------------------------------------------------------------------
# observers: everything a user can see, as a dict of plain values


def _seeded_streams(m, n_calls=2, n=5, conditions=None):
    """Two successive sample calls under set_random_state(11); the model's own random_state is restored."""
    old = m.random_state
    out = []
    try:
        m.set_random_state(11)
        for _ in range(n_calls):
            out.append(attempt(lambda: np.asarray(m.sample(n) if conditions is None else m.sample(n, conditions=conditions))))
    finally:
        m.random_state = old
    return out


def probe_points(spec):
    k = spec[0]
    if k == 'uni':
        x = training_data(spec)
        if x is None:
            x = np.linspace(0, 1, 20)
        s = uni.fitted_scale(x)
        q = np.quantile(x, [0, 0.1, 0.5, 0.9, 1.0])
        return np.concatenate([q, [x.min() - 3 * s, x.max() + 3 * s, x.min() - 50 * s, x.max() + 50 * s, np.mean(x)]])
    if k == 'biv':
        g = np.array([0.02, 0.3, 0.5, 0.77, 0.98])
        U, V = np.meshgrid(g, g, indexing='ij')
        return np.column_stack([U.ravel(), V.ravel()])
    df = training_data(spec)
    if df is None:
        df = pd.DataFrame({'a': [0.1, 0.5, 0.9], 'b': [1.0, 2.0, 4.0]})
    return df


def observe(m, spec, light=False):
    k = spec[0]
    P = probe_points(spec)
    obs = {}
    if k == 'uni':
        probs = np.array([0.0, 1e-3, 0.25, 0.5, 0.9, 1 - 1e-3, 1.0])
        obs['to_dict'] = attempt(m.to_dict)
        obs['pdf'] = attempt(lambda: np.asarray(m.probability_density(P.copy())))
        obs['cdf'] = attempt(lambda: np.asarray(m.cumulative_distribution(P.copy())))
        obs['ppf'] = attempt(lambda: np.asarray(m.percent_point(probs.copy())))
        obs['logpdf'] = attempt(lambda: np.asarray(m.log_probability_density(P.copy())))
        obs['streams'] = _seeded_streams(m)
    elif k == 'biv':
        y = np.array([0.05, 0.5, 0.93])
        v = np.array([0.2, 0.6, 0.9])
        obs['to_dict'] = attempt(m.to_dict)
        obs['cdf'] = attempt(lambda: np.asarray(m.cumulative_distribution(P.copy())))
        obs['pdf'] = attempt(lambda: np.asarray(m.probability_density(P.copy())))
        obs['h'] = attempt(lambda: np.asarray(m.partial_derivative(P.copy())))
        obs['ppf'] = attempt(lambda: np.asarray(m.percent_point(y.copy(), v.copy())))
        obs['streams'] = _seeded_streams(m, n=4)
    elif k == 'gm':
        df = P
        obs['to_dict'] = attempt(m.to_dict)
        obs['pdf'] = attempt(lambda: np.asarray(m.probability_density(df.iloc[:6].copy())))
        obs['logpdf'] = attempt(lambda: np.asarray(m.log_probability_density(df.iloc[:3].copy())))
        if not light and len(df.columns) <= 3 and not any(df[c].nunique() == 1 for c in df.columns):
            np.random.seed(3)
            obs['cdf'] = attempt(lambda: np.round(np.asarray(m.cumulative_distribution(df.iloc[:2].copy())), 3))
        obs['streams'] = _seeded_streams(m)
        c0 = df.columns[0]
        obs['cond-streams'] = _seeded_streams(m, n=3, conditions={c0: float(df[c0].iloc[1])})
    elif k == 'vine':
        df = P
        td = attempt(m.to_dict)
        obs['to_dict'] = td
        if spec[2] is not None:
            U = np.clip(np.column_stack([np.linspace(0.2, 0.8, 3) + 0.03 * j for j in range(df.shape[1])]), 0.05, 0.95)
            obs['likelihood'] = [attempt(lambda row=row: float(m.get_likelihood(row[None, :]))) for row in U]
        obs['streams'] = _seeded_streams(m, n=2)
    return obs


def kind_of(m):
    return type(m).__module__ + '.' + type(m).__qualname__
