"""Seams installed from outside the library: the module-level name `np` of copulas modules is replaced by a
forwarding proxy for the duration of one case.  No source hook is needed.

* RNG record mode  - every np.random.<draw> call made *from copulas code* is logged (name, args, result);
* RNG script mode  - selected draws are answered from a script (lattice points) instead of the generator;
* poison mode      - np.empty returns buffers filled with a chosen value (uninitialised-memory alphabet).
"""
import contextlib
import importlib

import numpy as real_np

RNG_NAMES = ('uniform', 'randint', 'multivariate_normal', 'random', 'normal', 'choice', 'exponential')
DEFAULT_MODULES = ('copulas.bivariate.base', 'copulas.multivariate.gaussian', 'copulas.multivariate.vine',
                   'copulas.multivariate.tree', 'copulas.univariate.base', 'copulas.univariate.gaussian_kde',
                   'copulas.datasets')


class _RandomProxy:
    def __init__(self, log, script):
        self._log = log
        self._script = script or {}

    def __getattr__(self, name):
        realf = getattr(real_np.random, name)
        if name not in RNG_NAMES:
            return realf

        def f(*a, **k):
            if name in self._script:
                out = self._script[name](*a, **k)
            else:
                out = realf(*a, **k)
            self._log.append((name, a, k, out))
            return out
        return f


class NpProxy:
    def __init__(self, log, script=None, poison=None):
        self.random = _RandomProxy(log, script)
        self._poison = poison
        self._log = log

    def empty(self, shape, *a, **k):
        arr = real_np.empty(shape, *a, **k)
        if self._poison is not None:
            arr[...] = self._poison
        self._log.append(('empty', (shape,), {}, None))
        return arr

    def __getattr__(self, name):
        return getattr(real_np, name)


@contextlib.contextmanager
def seam(script=None, poison=None, modules=DEFAULT_MODULES):
    """Yields the call log (list of (name, args, kwargs, result))."""
    log = []
    mods = [importlib.import_module(m) for m in modules]
    saved = [m.np for m in mods]
    proxy = NpProxy(log, script, poison)
    try:
        for m in mods:
            m.np = proxy
        yield log
    finally:
        for m, s in zip(mods, saved):
            m.np = s


def draws(log):
    return [e for e in log if e[0] != 'empty']
