"""Univariate model zoo and dataset zoo (alphabets for C03, C04, C05, C14, C15, C19)."""
import numpy as np
from scipy import stats

from mc import alphabets as A

# ------------------------------------------------------------------------------------------------
# datasets: ideal samples F^-1((i+1/2)/n) of a shape, moved to (loc, scale)

SHAPES = {
    'normal': stats.norm(),
    'uniform': stats.uniform(),
    'expon': stats.expon(),
    'gamma2': stats.gamma(2.0),
    'beta_u': stats.beta(0.5, 0.5),
    'beta25': stats.beta(2.0, 5.0),
    't3': stats.t(3.0),
    'lognorm': stats.lognorm(0.6),
}
LOCSCALE = [(0.0, 1.0), (5.0, 1e-3), (-1e3, 1e3), (1e6, 1.0), (0.0, 1e-9)]


def bimodal_ppf(q):
    """Quantiles of 0.4 N(0,1) + 0.6 N(6,1) by bisection (deterministic)."""
    q = np.asarray(q, float)
    lo, hi = np.full(q.shape, -10.0), np.full(q.shape, 16.0)
    for _ in range(80):
        m = 0.5 * (lo + hi)
        f = 0.4 * stats.norm.cdf(m) + 0.6 * stats.norm.cdf(m - 6)
        lo = np.where(f < q, m, lo)
        hi = np.where(f < q, hi, m)
    return 0.5 * (lo + hi)


def dataset(spec):
    """spec = (shape, loc, scale, n)  |  ('const', value, n)  |  ('ties', loc, scale, n)."""
    kind = spec[0]
    if kind == 'const':
        return np.full(spec[2], float(spec[1]))
    if kind == 'alternating':
        n_ = spec[3]
        xs = stats.norm.ppf(A.midpoints(n_)) * spec[2] + spec[1]
        half = (n_ + 1) // 2
        out_ = np.empty(n_)
        out_[0::2] = xs[:half]                 # lower half on the even positions, upper half on the odd ones
        out_[1::2] = xs[half:]
        return out_
    if kind == 'int8span':
        # an int8 column spanning more than 127: max - min overflows in int8 arithmetic (a candidate may end up with a nan score)
        return np.round(np.linspace(-100, 100, spec[3])).astype(np.int8)
    if kind == 'underflow':
        # all zeros but one value of 1e-300: the variance underflows to 0
        x = np.zeros(spec[3])
        x[-1] = 1e-300
        return x
    _, loc, scale, n = spec
    q = A.midpoints(n)
    if kind == 'bimodal':
        x = bimodal_ppf(q)
    elif kind == 'ties':
        x = np.round(stats.norm.ppf(q) * 2) / 2.0          # integer/half-integer valued with ties
        if len(np.unique(x)) < 5:
            x = np.arange(n, dtype=float) // max(1, n // 5)
    else:
        x = SHAPES[kind].ppf(q)
    return loc + scale * np.asarray(x, float)


def dataset_zoo(ns, locscale=LOCSCALE, shapes=None):
    shapes = shapes or (list(SHAPES) + ['bimodal', 'ties'])
    return [(s, lo, sc, n) for s in shapes for (lo, sc) in locscale for n in ns]


CONSTANTS = [('const', v, n) for v in (3.0, -1.0, 0.0, 1e9, 2.5, 1000.3) for n in (1, 2, 50)]

# ------------------------------------------------------------------------------------------------
# models: spec -> fresh unfitted instance

SCIPY_FAMILIES = ('beta', 'gamma', 'gaussian', 'loglaplace', 'student_t', 'uniform')
CLASSNAMES = {'beta': 'BetaUnivariate', 'gamma': 'GammaUnivariate', 'gaussian': 'GaussianUnivariate',
              'loglaplace': 'LogLaplace', 'student_t': 'StudentTUnivariate', 'uniform': 'UniformUnivariate',
              'truncated': 'TruncatedGaussian', 'kde': 'GaussianKDE', 'univariate': 'Univariate'}


def half_scott(kde):
    """A bandwidth rule given as a (module-level, hence picklable) callable."""
    return 0.5 * kde.scotts_factor()


def make_model(spec, data=None, random_state=None):
    """spec examples: ('beta',) ('truncated',) ('truncated','bounds') ('kde', bw, sample_size, weighted)
    ('univariate', variant)."""
    import copulas.univariate as U
    kind = spec[0]
    kw = {} if random_state is None else {'random_state': random_state}
    if kind in SCIPY_FAMILIES:
        return getattr(U, CLASSNAMES[kind])(**kw)
    if kind == 'truncated':
        if len(spec) > 1 and spec[1] == 'bounds':
            lo, hi = float(np.min(data)), float(np.max(data))
            w = hi - lo
            return U.TruncatedGaussian(minimum=lo - 0.25 * w, maximum=hi + 0.5 * w, **kw)
        if len(spec) > 1 and spec[1] == 'wide-bounds':
            # bounds far outside anything the fitted normal can reach (|standardised bound| > 60)
            m, sd = float(np.mean(data)), float(np.std(data)) or 1.0
            return U.TruncatedGaussian(minimum=m - 80 * sd, maximum=m + 60 * sd, **kw)
        return U.TruncatedGaussian(**kw)
    if kind == 'kde':
        _, bw, ss, weighted = spec
        if isinstance(bw, str) and bw.startswith('np.float32:'):
            bw = np.float32(bw.split(':', 1)[1])         # a numpy scalar that is not a Python float subclass
        elif bw == 'callable:half-scott':
            bw = half_scott
        weights = None
        if weighted:
            n = len(data)
            weights = (1.0 + (np.arange(n) % 3)) / np.sum(1.0 + (np.arange(n) % 3))
        return U.GaussianKDE(bw_method=bw, sample_size=ss, weights=weights, **kw)
    if kind == 'univariate':
        v = spec[1]
        P, B = U.ParametricType, U.BoundedType
        if v == 'default':
            return U.Univariate(**kw)
        if v == 'parametric':
            return U.Univariate(parametric=P.PARAMETRIC, **kw)
        if v == 'nonparametric':
            return U.Univariate(parametric=P.NON_PARAMETRIC, **kw)
        if v == 'bounded':
            return U.Univariate(bounded=B.BOUNDED, **kw)
        if v == 'semibounded':
            return U.Univariate(bounded=B.SEMI_BOUNDED, **kw)
        if v == 'unbounded':
            return U.Univariate(bounded=B.UNBOUNDED, **kw)
        if v == 'cands-classes':
            return U.Univariate(candidates=[U.GaussianUnivariate, U.UniformUnivariate], **kw)
        if v == 'cands-names':
            return U.Univariate(candidates=['copulas.univariate.gamma.GammaUnivariate',
                                            'copulas.univariate.gaussian.GaussianUnivariate'], **kw)
        if v == 'cands-instances':
            return U.Univariate(candidates=[U.GaussianKDE(bw_method=0.5), U.StudentTUnivariate()], **kw)
    raise ValueError(spec)


MODEL_ZOO_QUICK = [(f,) for f in SCIPY_FAMILIES] + [
    ('truncated',), ('truncated', 'bounds'),
    ('kde', None, None, False), ('kde', 'silverman', None, False), ('kde', 0.3, None, False),
    ('kde', 1.0, None, False), ('kde', None, 20, False), ('kde', 'scott', None, True),
    ('univariate', 'default'), ('univariate', 'parametric'), ('univariate', 'bounded'),
    ('univariate', 'cands-instances'),
]
MODEL_ZOO_THOROUGH = MODEL_ZOO_QUICK + [
    ('kde', 0.3, 20, False), ('kde', 'silverman', None, True),
    ('univariate', 'nonparametric'), ('univariate', 'semibounded'), ('univariate', 'unbounded'),
    ('univariate', 'cands-classes'), ('univariate', 'cands-names'),
]


def fitted_scale(x):
    x = np.asarray(x, float)
    s = float(np.std(x))
    return s if s > 0 else 1.0
