"""Finite alphabets shared by the checks: grids, theta lists, lattices, ideal samples, tables."""
import itertools
import math

import numpy as np

EPS32 = float(np.finfo(np.float32).eps)

G11 = [1e-4, 1e-3, 0.01, 0.1, 0.3, 0.5, 0.7, 0.9, 0.99, 0.999, 1 - 1e-4]
G41 = sorted(set(G11 + [round(0.05 * i, 2) for i in range(1, 20)] +
                 [0.02, 0.98, 3e-4, 1 - 3e-4, 3e-3, 1 - 3e-3, 0.03, 0.97, 0.33, 0.67, 0.005, 0.995]))
BOUNDARY = [0.0, 1e-12, 1 - 1e-12, 1.0]
# positive values so small that u ** -theta overflows: still points of the unit square "within 1e-12 of the boundary"
TINY = [5e-324, 1e-300, 1e-100, 1e-40]
# values on both sides of float32 eps (1.19e-7), the library's EPSILON: a tolerance used as a boundary test shows here
NEAR = [1e-9, 1e-8, 6e-8, 1.3e-7, 1e-6, 1 - 1e-6, 1 - 1.3e-7, 1 - 6e-8, 1 - 1e-9]

THETAS = {
    'quick': {
        'clayton': [0.05, 0.5, 1.0, 2.0, 4.0, 8.0],
        'gumbel': [1.0, 1.01, 1.25, 1.5, 2.0, 3.0, 5.0],
        'frank': [-18.2, -10.0, -5.74, -3.0, -1.0, -0.1, -0.01, -5e-4, -1e-4, 1e-4, 5e-4, 0.01, 0.1, 1.0, 3.0, 5.74, 10.0, 18.2],
    },
    'thorough': {
        'clayton': sorted({1e-3, 0.01, 0.05, 0.1, 0.25, 0.5, 0.75, 1.0, 1.5, 2.0, 3.0, 4.0, 5.0, 6.0, 7.0, 8.0} |
                          {round(0.25 * i, 2) for i in range(1, 33)} | {0.02, 0.2, 0.35, 7.9, 7.99}),
        'gumbel': sorted({1.0, 1.001, 1.01, 1.05, 1.1, 1.25, 1.5, 1.75, 2.0, 2.5, 3.0, 3.5, 4.0, 4.5, 4.9, 5.0} |
                         {round(1 + 0.125 * i, 3) for i in range(1, 33)} | {1.0001, 1.02, 4.99}),
        'frank': sorted([s * t for s in (-1, 1) for t in
                         (1e-4, 5e-4, 1e-3, 0.01, 0.05, 0.1, 0.25, 0.5, 0.75, 1.0, 1.5, 2.0, 2.5, 3.0, 3.5, 4.0, 5.0, 5.74, 6.5, 7.0,
                          8.0, 8.5, 9.0, 10.0, 11.0, 12.0, 13.0, 14.0, 15.0, 16.0, 17.0, 18.0, 18.2)]),
    },
}


G81 = sorted(set(G41 + [round(0.0125 * i, 4) for i in range(1, 80)] + [1e-5 * 3, 1 - 3e-5, 2e-4, 1 - 2e-4, 5e-4, 1 - 5e-4,
                                                                        0.0015, 0.9985, 0.0075, 0.9925, 0.015, 0.985]))
G81 = [x for x in G81 if 1e-4 <= x <= 1 - 1e-4]


def tier_grid(tier):
    return G11 if tier == 'quick' else G81


# ------------------------------------------------------------------------------------------------
# quasi-random point sets (rank-1 lattices) and ideal samples


def lattice(n, d, shift=None, a=None):
    """Rank-1 Korobov lattice in (0,1)^d with an optional Cranley-Patterson shift."""
    if a is None:
        a = korobov_generator(n, d)
    gen = np.array([pow(a, j, n) for j in range(d)], dtype=np.int64)[None, :]
    i = np.arange(n, dtype=np.int64)[:, None]
    P = ((i * gen) % n + 0.5) / n
    if shift is not None:
        P = (P + np.asarray(shift)[None, :d]) % 1.0
        P = np.clip(P, 0.5 / n / 4, 1 - 0.5 / n / 4)
    return P


_KOROBOV = {}


def korobov_generator(n, d=7):
    """Deterministic choice of the Korobov multiplier: among the first 300 multipliers coprime to n, the one whose
    d-dimensional point set has the smallest maximum absolute normal-score correlation between coordinates (so that a
    table pushed through it has, as nearly as possible, exactly the designed dependence). Cached per n."""
    d = max(2, min(int(d), 7))
    if (n, d) in _KOROBOV:
        return _KOROBOV[(n, d)]
    from scipy.stats import norm
    best, best_a = np.inf, None
    cands = [a for a in range(2, n) if math.gcd(a, n) == 1][:300]
    i = np.arange(n, dtype=np.int64)[:, None]
    for a in cands:
        gen = np.array([pow(a, j, n) for j in range(d)], dtype=np.int64)[None, :]
        Z = norm.ppf(((i * gen) % n + 0.5) / n)
        if n > 1:
            Z = Z[1:] if n > 8 else Z
        with np.errstate(all='ignore'):
            C = np.corrcoef(Z, rowvar=False)
        if not np.all(np.isfinite(C)):
            continue
        m = np.max(np.abs(C - np.eye(d)))
        if m < best:
            best, best_a = m, a
    _KOROBOV[(n, d)] = best_a if best_a is not None else 2
    return _KOROBOV[(n, d)]


def shift_from_seed(seed, d=8):
    """Cranley-Patterson shift derived from VERIF_SEED (0 -> no shift)."""
    if not seed:
        return None
    return np.random.RandomState(seed % (2 ** 32)).uniform(0, 1, d)


def midpoints(n):
    return (np.arange(n) + 0.5) / n


def ideal_sample(dist, n):
    """F^-1((i+1/2)/n): a deterministic sample at KS distance 1/(2n) from F."""
    return np.asarray(dist.ppf(midpoints(n)), dtype=float)


def weak_orders(m):
    """All weak orders (ordered set partitions) of m items, as tuples of ranks 0..k-1."""
    out = []
    for ranks in itertools.product(range(m), repeat=m):
        k = max(ranks) + 1
        if set(ranks) == set(range(k)):
            out.append(ranks)
    return out


def set_partitions_as_sorted_ties(n):
    """All tie patterns of a sorted sequence of length n = compositions of n (ranks non-decreasing)."""
    out = []
    for cuts in itertools.product((0, 1), repeat=n - 1):
        r = [0]
        for c in cuts:
            r.append(r[-1] + c)
        out.append(tuple(r))
    return out


# ------------------------------------------------------------------------------------------------
# exhaustive small pseudo-observation arrays (C10, C11)

_PATTERNS = {}


def rank_patterns(n):
    """All (tie pattern of U in sorted order, weak order of V) pairs for length n."""
    if n not in _PATTERNS:
        _PATTERNS[n] = [(u, v) for u in set_partitions_as_sorted_ties(n) for v in weak_orders(n)]
    return _PATTERNS[n]


def ranks_to_unit(r, mapping):
    """Map dense ranks 0..k-1 to pseudo-observations: 'open' -> (r+1)/(k+1); 'closed' -> r/(k-1) (touches 0 and 1)."""
    r = np.asarray(r, float)
    k = int(r.max()) + 1
    if mapping == 'open':
        return (r + 1) / (k + 1)
    if mapping == 'tiny-low':        # k distinct values inside [0, 1e-8): all within float32-eps of 0
        return r * 1e-9
    if mapping == 'tiny-high':       # k distinct values inside (1 - 1e-8, 1]
        return 1.0 - (k - 1 - r) * 1e-9
    if k == 1:
        return np.full(len(r), 0.5)
    return r / (k - 1)


def pattern_array(n, idx, mapping):
    u, v = rank_patterns(n)[idx]
    if mapping == 'tiny':
        return np.column_stack([ranks_to_unit(u, 'tiny-low'), ranks_to_unit(v, 'tiny-high')])
    return np.column_stack([ranks_to_unit(u, mapping), ranks_to_unit(v, mapping)])


def designed_tau_array(n, tau_target):
    """A permutation dataset of size n whose Kendall tau is as close as possible to tau_target: start from the
    identity and apply adjacent transpositions (each lowers tau by 2/(n(n-1)/2)) in a fixed bubble order."""
    n0 = n * (n - 1) // 2
    inv = int(round((1 - tau_target) * n0 / 2))
    perm = list(range(n))
    # build the permutation with exactly `inv` inversions (Lehmer code, greedy)
    code = []
    rem = inv
    for i in range(n):
        c = min(rem, n - 1 - i)
        code.append(c)
        rem -= c
    avail = list(range(n))
    perm = [avail.pop(c) for c in code]
    u = (np.arange(n) + 1.0) / (n + 1)
    v = (np.asarray(perm) + 1.0) / (n + 1)
    return np.column_stack([u, v])
