"""Command line: ./check Cnn [--tier quick|thorough] [--replay path] | --selftest | --all."""
import argparse
import os
import sys
import traceback


def main(argv=None):
    ap = argparse.ArgumentParser()
    ap.add_argument('prop', nargs='?')
    ap.add_argument('--tier', default=None, choices=['quick', 'thorough'])
    ap.add_argument('--replay', default=None)
    ap.add_argument('--selftest', action='store_true')
    ap.add_argument('--all', action='store_true')
    a = ap.parse_args(argv)
    from mc import engine
    tier = a.tier or os.environ.get('VERIF_TIER') or 'quick'
    if tier not in ('quick', 'thorough'):
        tier = 'quick'
    try:
        seed = int(os.environ.get('VERIF_SEED', '0'))
    except ValueError:
        seed = 0
    try:
        if a.selftest:
            from mc import selftest
            return selftest.main()
        if a.all:
            rc = 0
            for i in range(1, 21):
                mod = f'mc.checks.c{i:02d}'
                try:
                    __import__(mod)
                except ModuleNotFoundError:
                    continue
                rc = max(rc, engine.run_check(mod, tier, seed))
            return rc
        if not a.prop:
            ap.error('property id required')
        mod = 'mc.checks.' + a.prop.lower()
        return engine.run_check(mod, tier, seed, replay=a.replay)
    except engine.HarnessError as e:
        print(f'HARNESS-ERROR {e}')
        return 2
    except Exception:
        traceback.print_exc()
        print('HARNESS-ERROR unexpected exception in the harness')
        return 2


if __name__ == '__main__':
    sys.exit(main())
