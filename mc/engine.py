"""Explorer runtime: sharded exhaustive enumeration, verdicts, evidence, replays, known findings.

A *check module* (mc/checks/cNN.py) provides

    PROPERTY = 'C06'
    LEVEL    = 'model_checking' | 'exploration'
    RULE     = '...'                       # how cases are enumerated / what is non-trivial
    ASSUMPTIONS = [...]
    def cases(tier, seed) -> list          # finite, explicitly enumerated, picklable specs
    def run_case(case) -> Result           # executes ONE case on the real code + reference model
    def finish(agg, tier)                  # optional: cross-case oracles and vacuity guards

`run_case` receives a fresh `Result` through `engine.new_result()` and records on it.
The engine never samples: every element of `cases()` is executed, the counters in the evidence
file are the measured sums over all executed cases.
"""
import fnmatch
import hashlib
import importlib
import json
import multiprocessing as mp
import os
import signal
import subprocess
import sys
import time
import traceback
import warnings

VERIF = os.path.dirname(os.path.dirname(os.path.abspath(__file__)))
REPO = os.environ.get('COPULAS_REPO', '/repo')
CASE_TIMEOUT = int(os.environ.get('VERIF_CASE_TIMEOUT', '0'))      # 0 = tier default: quick 240 s, thorough 1800 s
_TIMEOUT = [CASE_TIMEOUT or 240]


class HarnessError(Exception):
    """Coverage collapse / replay divergence / broken harness: exit status 2, never a VIOLATION."""


def bootstrap():
    """Make `copulas` importable from the working tree under test, bytecode-free, single-threaded."""
    sys.dont_write_bytecode = True
    for k in ('OMP_NUM_THREADS', 'OPENBLAS_NUM_THREADS', 'MKL_NUM_THREADS'):
        os.environ.setdefault(k, '1')
    if REPO not in sys.path[:1]:
        sys.path.insert(0, REPO)
    deps = os.path.join(VERIF, '.deps')
    if deps not in sys.path:
        sys.path.append(deps)
    import copulas  # noqa
    src = os.path.dirname(os.path.abspath(copulas.__file__))
    if not src.startswith(os.path.abspath(REPO)):
        raise HarnessError(f'copulas imported from {src}, expected under {REPO}')
    warnings.simplefilter('ignore')
    import numpy as np
    np.seterr(all='ignore')
    # import everything the cases will need once, here: each case runs in a freshly forked child, which would otherwise repeat
    # the lazy imports (scipy.stats, scipy.optimize, plotly, mpmath ...) every time
    import importlib
    for name in ('scipy.stats', 'scipy.optimize', 'scipy.integrate', 'scipy.special', 'pandas', 'mpmath',
                 'copulas.univariate', 'copulas.bivariate', 'copulas.bivariate.independence', 'copulas.multivariate',
                 'copulas.multivariate.tree', 'copulas.multivariate.vine', 'copulas.optimize', 'copulas.datasets',
                 'copulas.visualization', 'plotly.express', 'mc.seq', 'mc.seams', 'mc.zoo', 'mc.uni', 'mc.tables',
                 'mc.quadrature', 'mc.ref.archimedean', 'mc.ref.archimedean_np', 'mc.ref.kendall', 'mc.ref.kde', 'mc.ref.mvn',
                 'mc.ref.rvine', 'mc.ref.samplers', 'mc.boom'):
        try:
            importlib.import_module(name)
        except Exception:
            pass


# ------------------------------------------------------------------------------------------------
# per-case result


class Result(dict):
    """Counters and findings of one executed case."""

    def __init__(self):
        super().__init__(evals=0, trans=0, states=[], viol=[], hits={}, outcomes=[],
                         nontrivial=0, sample=None, extra={})

    def ev(self, n=1):
        self['evals'] += n

    def tr(self, n=1):
        self['trans'] += n

    def state(self, key):
        self['states'].append(key if isinstance(key, str) else digest(key))

    def hit(self, name, n=1):
        self['hits'][name] = self['hits'].get(name, 0) + n

    def outcome(self, o):
        self['outcomes'].append(str(o))

    def nontriv(self, n=1):
        self['nontrivial'] += n

    def violation(self, sig, msg, case=None, **detail):
        """Record a contradiction with the oracle. `sig` is the stable, narrow signature."""
        if len(self['viol']) < 40:
            self['viol'].append({'sig': sig, 'msg': msg, 'case': case, 'detail': jsonable(detail)})
        else:
            self['extra']['viol_overflow'] = self['extra'].get('viol_overflow', 0) + 1

    def add(self, key, n=1):
        self['extra'][key] = self['extra'].get(key, 0) + n


def new_result():
    return Result()


def digest(obj):
    return hashlib.sha1(repr(obj).encode()).hexdigest()[:16]


def jsonable(o, depth=0):
    import numpy as np
    if depth > 6:
        return repr(o)[:200]
    if isinstance(o, dict):
        return {str(k): jsonable(v, depth + 1) for k, v in list(o.items())[:60]}
    if isinstance(o, (list, tuple, set, frozenset)):
        lst = list(o)
        out = [jsonable(v, depth + 1) for v in lst[:60]]
        if len(lst) > 60:
            out.append(f'... {len(lst) - 60} more')
        return out
    if isinstance(o, (np.floating, float)):
        f = float(o)
        return f if f == f and abs(f) != float('inf') else repr(f)
    if isinstance(o, (np.integer,)):
        return int(o)
    if isinstance(o, (np.bool_,)):
        return bool(o)
    if isinstance(o, np.ndarray):
        return jsonable(o.tolist() if o.size <= 60 else o.ravel()[:60].tolist() + ['...'], depth + 1)
    if isinstance(o, (str, int, bool)) or o is None:
        return o
    return repr(o)[:300]


# ------------------------------------------------------------------------------------------------
# workers

_MOD = None


class CaseTimeout(BaseException):
    """Raised by the per-case alarm. A BaseException, so that no `except Exception` in a check can swallow it."""


def _alarm(signum, frame):
    raise CaseTimeout('case exceeded VERIF_CASE_TIMEOUT')


def _worker_init(modname):
    global _MOD
    bootstrap()
    _MOD = importlib.import_module(modname)
    if hasattr(_MOD, 'worker_init'):
        _MOD.worker_init()
    signal.signal(signal.SIGALRM, _alarm)


def _linecov_start():
    """Diagnostic only (VERIF_LINECOV=<dir>): which lines of the library a check executes; see tools/linecov_report.py."""
    import sys
    root = os.path.join(os.environ.get('COPULAS_REPO', '/repo'), 'copulas')
    seen = set()

    def local(frame, event, arg):
        if event == 'line':
            seen.add((frame.f_code.co_filename, frame.f_lineno))
        return local

    def tracer(frame, event, arg):
        if frame.f_code.co_filename.startswith(root):
            seen.add((frame.f_code.co_filename, frame.f_lineno))
            return local
        return None
    sys.settrace(tracer)
    return seen, root


def _linecov_stop(seen, root):
    import sys
    sys.settrace(None)
    d = os.environ['VERIF_LINECOV']
    os.makedirs(d, exist_ok=True)
    with open(os.path.join(d, f'{_MOD.PROPERTY}-{os.getpid()}.txt'), 'w') as f:
        for fn, ln in sorted(seen):
            f.write(f'{os.path.relpath(fn, root)}:{ln}\n')


def _run_one(case):
    import numpy as np
    signal.alarm(_TIMEOUT[0])
    cov = _linecov_start() if os.environ.get('VERIF_LINECOV') else None
    try:
        np.random.seed(12345)
        res = _MOD.run_case(case)
        if not isinstance(res, Result):
            raise HarnessError('run_case must return a Result')
    except HarnessError:
        raise
    except CaseTimeout as exc:
        res = Result()
        res.ev()
        res.violation(f'{_MOD.PROPERTY}:case-timeout', f'case did not finish within {_TIMEOUT[0]} s: {exc}', case=case)
    except Exception as exc:  # the harness itself must not crash: an unexpected exception is a finding
        res = Result()
        res.ev()
        res.violation(f'{_MOD.PROPERTY}:harness-exception:{type(exc).__name__}',
                      f'unexpected {type(exc).__name__}: {exc}', case=case,
                      traceback=traceback.format_exc()[-1500:])
    finally:
        signal.alarm(0)
        if cov is not None:
            _linecov_stop(*cov)
    if res['sample'] is None:
        res['sample'] = jsonable(case)
    return res


def _run_isolated(case):
    """Run one case in a child forked from this (never used) worker and ship the Result back through a pipe."""
    import pickle
    rfd, wfd = os.pipe()
    pid = os.fork()
    if pid == 0:
        code = 0
        try:
            os.close(rfd)
            data = pickle.dumps(_run_one(case), protocol=pickle.HIGHEST_PROTOCOL)
            with os.fdopen(wfd, 'wb') as f:
                f.write(data)
        except BaseException:
            code = 1
        finally:
            os._exit(code)
    os.close(wfd)
    chunks = []
    with os.fdopen(rfd, 'rb') as f:
        while True:
            b = f.read(1 << 20)
            if not b:
                break
            chunks.append(b)
    _, status = os.waitpid(pid, 0)
    if not chunks:
        res = Result()
        res.ev()
        res.violation(f'{_MOD.PROPERTY}:case-process-died', f'the process running the case died (status {status}) without a '
                      f'result', case=case)
        res['sample'] = jsonable(case)
        return res
    return pickle.loads(b''.join(chunks))


def execute(modname, cases, workers=None):
    """Run every case, return the aggregate. Cases are sharded over forked workers."""
    workers = workers or int(os.environ.get('VERIF_WORKERS', '16'))
    agg = dict(evals=0, trans=0, states=set(), viol=[], hits={}, outcomes={}, nontrivial=0,
               samples=[], extra={}, cases=len(cases))
    if not cases:
        return agg
    workers = max(1, min(workers, len(cases)))
    if workers == 1:
        _worker_init(modname)
        it = map(_run_one, cases)
        pool = None
    else:
        # one freshly forked process per case: every case starts from the parent's pristine interpreter state, so a
        # verdict never depends on which cases ran before in the same worker (class-level state leaked by the code
        # under test would otherwise make a violation irreproducible in the fresh-process replay)
        ctx = mp.get_context('fork')
        mod = importlib.import_module(modname)
        if hasattr(mod, 'prefork'):
            mod.prefork()                      # warm pure caches (lattice generators, pattern tables) once, in the parent
        pool = ctx.Pool(workers, initializer=_worker_init, initargs=(modname,))
        chunk = max(1, min(32, len(cases) // (workers * 8)))
        it = pool.imap(_run_isolated, cases, chunksize=chunk)
    try:
        for i, res in enumerate(it):
            agg['evals'] += res['evals']
            agg['trans'] += res['trans']
            agg['states'].update(res['states'])
            agg['nontrivial'] += res['nontrivial']
            for k, v in res['hits'].items():
                agg['hits'][k] = agg['hits'].get(k, 0) + v
            for o in res['outcomes']:
                agg['outcomes'][o] = agg['outcomes'].get(o, 0) + 1
            for k, v in res['extra'].items():
                if k.startswith('max_'):
                    agg['extra'][k] = max(agg['extra'].get(k, v), v)
                elif isinstance(v, (int, float)):
                    agg['extra'][k] = agg['extra'].get(k, 0) + v
                else:
                    agg['extra'].setdefault(k, v)
            agg['viol'].extend(res['viol'])
            if len(agg['samples']) < 3 or (i == len(cases) - 1 and len(agg['samples']) < 4):
                agg['samples'].append(res['sample'])
    finally:
        if pool is not None:
            pool.close()
            pool.join()
    return agg


# ------------------------------------------------------------------------------------------------
# known findings, replays, evidence


def load_known():
    path = os.path.join(VERIF, 'known_findings.json')
    if not os.path.exists(path):
        return []
    with open(path) as f:
        return json.load(f)['findings']


def match_known(prop, sig, known):
    for k in known:
        if k.get('property') == prop and k.get('status') == 'open' and \
                fnmatch.fnmatchcase(sig, k['signature']):
            return k
    return None


def write_replay(prop, v):
    d = os.path.join(VERIF, 'replays')
    os.makedirs(d, exist_ok=True)
    h = hashlib.sha1(v['sig'].encode()).hexdigest()[:10]
    path = os.path.join(d, f'{prop}-{h}.json')
    with open(path, 'w') as f:
        json.dump({'property': prop, 'signature': v['sig'], 'message': v['msg'],
                   'case': jsonable(v['case']), 'case_repr': repr(v['case']),
                   'detail': v['detail'],
                   'how': f'cd /verif && ./check {prop} --replay {path}'}, f, indent=1)
    return path


def confirm_in_fresh_process(prop, path, sig):
    """Replay one violating case in a fresh interpreter: the same signature must come back."""
    env = dict(os.environ)
    out = subprocess.run([os.path.join(VERIF, 'check'), prop, '--replay', path],
                         capture_output=True, text=True, env=env, timeout=_TIMEOUT[0] + 120)
    return out.returncode == 1 and f'sig={sig}' in out.stdout, out.stdout[-2000:] + out.stderr[-2000:]


def run_check(modname, tier, seed, replay=None):
    t0 = time.time()
    bootstrap()
    mod = importlib.import_module(modname)
    prop = mod.PROPERTY
    if replay:
        with open(replay) as f:
            rec = json.load(f)
        case = eval(rec['case_repr'], {'__builtins__': {}}, {'nan': float('nan'), 'inf': float('inf')})
        _worker_init(modname)
        res = _run_one(case)
        hit = [v for v in res['viol']]
        for v in hit:
            print(f'REPLAY-VIOLATION property={prop} sig={v["sig"]} :: {v["msg"]}')
        if not hit:
            print(f'REPLAY-OK property={prop} (case no longer violates the oracle)')
        return 1 if hit else 0

    cases = mod.cases(tier, seed)
    _TIMEOUT[0] = CASE_TIMEOUT or (240 if tier == 'quick' else 1800)
    agg = execute(modname, cases)
    agg['tier'] = tier
    agg['seed'] = seed
    collapse = None
    if hasattr(mod, 'finish'):
        try:
            mod.finish(agg, tier)
        except HarnessError as e:
            # a violation that aborts a case early may starve a vacuity guard: report the violation first
            collapse = e

    known = load_known()
    by_sig = {}
    for v in agg['viol']:
        by_sig.setdefault(v['sig'], []).append(v)
    new, old = {}, {}
    for sig, vs in by_sig.items():
        k = match_known(prop, sig, known)
        (old if k else new)[sig] = (k, vs)

    status = 0
    lines = []
    by_entry = {}
    for sig, (k, vs) in sorted(old.items()):
        e = by_entry.setdefault(id(k), [k, [], 0])
        e[1].append(sig)
        e[2] += len(vs)
    for k, sigs, n in by_entry.values():
        lines.append(f'KNOWN-FINDING: property={prop} {k["what_fails"]} [sig={",".join(sigs)} cases={n}]')
    confirmed = 0
    for sig, (_, vs) in sorted(new.items()):
        path = write_replay(prop, vs[0])
        if vs[0]['case'] is not None and confirmed < 3 and not os.environ.get('VERIF_NO_CONFIRM'):
            ok, out = confirm_in_fresh_process(prop, path, sig)
            confirmed += 1
            if not ok:
                print(f'HARNESS-ERROR property={prop} replay of {path} diverged in a fresh process:\n{out}')
                status = 2
                continue
        status = max(status, 1)
        lines.append(f'VIOLATION property={prop} replay={path} sig={sig} cases={len(vs)} :: {vs[0]["msg"]}')

    level = mod.LEVEL
    cov = {
        'evaluations': int(agg['evals']),
        'distinct_nontrivial': int(agg['nontrivial']),
        'rule': mod.RULE,
        'samples': agg['samples'][:4],
        'states': len(agg['states']),
        'transitions': int(agg['trans']),
        'traces_validated_against_impl': int(agg['extra'].get('traces', agg['trans'])),
        'explanation': ('the search runs directly on the real copulas objects: every transition counted here is one execution of '
                        'the implementation compared in lock-step with the reference model (there is no separate abstract model '
                        'whose traces would have to be replayed); cases_enumerated is the complete, explicitly generated case '
                        'list of this tier - nothing is sampled'),
        'exhaustive': True,
        'cases_enumerated': agg['cases'],
        'branch_hits': dict(sorted(agg['hits'].items())),
        'distinct_outcomes': len(agg['outcomes']),
        'outcome_histogram': dict(sorted(agg['outcomes'].items(), key=lambda kv: -kv[1])[:25]),
        'counters': {k: v for k, v in sorted(agg['extra'].items()) if isinstance(v, (int, float))},
        'known_findings_observed': sorted(old),
        'new_violation_signatures': sorted(new),
        'bounds': getattr(mod, 'bounds', lambda t: {})(tier),
    }
    ev = {
        'property_id': prop, 'tier': tier, 'seed': int(seed), 'level': level, 'coverage': cov,
        'assumptions': list(getattr(mod, 'ASSUMPTIONS', [])),
        'wall_s': round(time.time() - t0, 2),
        'violations': len(new),
    }
    evdir = os.environ.get('VERIF_EVIDENCE_DIR') or os.path.join(VERIF, 'evidence')
    os.makedirs(evdir, exist_ok=True)
    with open(os.path.join(evdir, f'{prop}.json'), 'w') as f:
        json.dump(ev, f, indent=1, sort_keys=True)
    for ln in lines:
        print(ln)
    if collapse is not None and not new:
        raise collapse
    print(f'{prop} tier={tier} cases={agg["cases"]} evaluations={agg["evals"]} '
          f'states={len(agg["states"])} transitions={agg["trans"]} nontrivial={agg["nontrivial"]} '
          f'outcomes={len(agg["outcomes"])} known={len(old)} new_violations={len(new)} '
          f'wall={ev["wall_s"]}s')
    return status


def require(cond, msg):
    """Vacuity guard: coverage collapse is a harness error (exit 2), never a silent pass."""
    if not cond:
        raise HarnessError('coverage collapse: ' + msg)
