"""E2 - explicit-state breadth-first search over operation histories on real objects.

A state is the history that reaches it; it is rebuilt by replaying the history on a FRESH real object (live
numpy/pandas/scipy objects are not reliably copyable, and a replayable history is what makes a counterexample a plain
script). States are deduplicated by a canonical fingerprint of the WHOLE object (canon), not only of its observable
outputs: an over-fine key only costs time, a coarse one would merge states with different futures.
"""
import enum
import hashlib

import numpy as np
import pandas as pd


def canon(o, depth=0, seen=None):
    """Canonical, hashable, NaN-aware description of an arbitrary object graph."""
    if seen is None:
        seen = set()
    if depth > 12:
        return ('deep', type(o).__name__)
    if o is None or isinstance(o, (bool, str, bytes)):
        return o
    if isinstance(o, (int, np.integer)):
        return ('i', int(o))
    if isinstance(o, (float, np.floating)):
        f = float(o)
        return ('f', 'nan') if f != f else ('f', f.hex())
    if isinstance(o, enum.Enum):
        return ('enum', type(o).__name__, o.name)
    if isinstance(o, np.ndarray):
        if o.dtype == object:
            return ('objarr', tuple(canon(x, depth + 1, seen) for x in o.ravel().tolist()), o.shape)
        a = np.ascontiguousarray(o)
        return ('arr', str(a.dtype), a.shape, hashlib.sha1(a.tobytes()).hexdigest())
    if isinstance(o, np.random.RandomState):
        st = o.get_state()
        return ('rs', st[0], hashlib.sha1(np.asarray(st[1]).tobytes()).hexdigest(), int(st[2]), int(st[3]), float(st[4]))
    if isinstance(o, pd.DataFrame):
        return ('df', tuple(map(str, o.columns)), tuple(map(str, o.index)), canon(o.to_numpy(), depth + 1, seen))
    if isinstance(o, pd.Series):
        return ('ser', tuple(map(str, o.index)), canon(o.to_numpy(), depth + 1, seen))
    if isinstance(o, pd.Index):
        return ('idx', tuple(map(str, o)))
    if isinstance(o, dict):
        return ('dict', tuple(sorted(((repr(k), canon(v, depth + 1, seen)) for k, v in o.items()), key=lambda kv: kv[0])))
    if isinstance(o, (list, tuple)):
        return (type(o).__name__, tuple(canon(x, depth + 1, seen) for x in o))
    if isinstance(o, (set, frozenset)):
        return ('set', tuple(sorted(repr(canon(x, depth + 1, seen)) for x in o)))
    if isinstance(o, type):
        return ('type', o.__module__, o.__qualname__)
    if callable(o) and not hasattr(o, '__dict__'):
        return ('callable', getattr(o, '__qualname__', repr(type(o))))
    if hasattr(o, '__self__') and hasattr(o, '__func__'):          # bound method
        return ('method', o.__func__.__qualname__, id(o.__self__) in seen or 'other')
    if id(o) in seen:
        return ('cycle', type(o).__name__)
    seen = seen | {id(o)}
    if type(o).__module__.startswith('scipy'):
        # scipy model objects (gaussian_kde): described by their defining data
        d = {k: v for k, v in getattr(o, '__dict__', {}).items() if not k.startswith('__')}
        return ('scipy', type(o).__name__, canon({k: d[k] for k in sorted(d) if k in
                                                   ('dataset', 'weights', '_weights', 'factor', 'covariance', 'd', 'n')},
                                                  depth + 1, seen))
    if hasattr(o, '__dict__'):
        return ('obj', type(o).__module__, type(o).__qualname__,
                canon({k: v for k, v in vars(o).items()}, depth + 1, seen))
    return ('repr', repr(o)[:200])


def key(o):
    return hashlib.sha1(repr(canon(o)).encode()).hexdigest()


def values_equal(a, b, rtol=0.0, atol=0.0):
    """NaN-aware structural equality of observations (nested tuples/lists/dicts/arrays/scalars)."""
    if isinstance(a, dict) and isinstance(b, dict):
        return a.keys() == b.keys() and all(values_equal(a[k], b[k], rtol, atol) for k in a)
    if isinstance(a, (list, tuple)) and isinstance(b, (list, tuple)):
        return len(a) == len(b) and all(values_equal(x, y, rtol, atol) for x, y in zip(a, b))
    if isinstance(a, (set, frozenset)) and isinstance(b, (set, frozenset, list, tuple)):
        return sorted(map(repr, a)) == sorted(map(repr, b))
    if isinstance(a, pd.Index) or isinstance(b, pd.Index):
        return list(a) == list(b)
    if isinstance(a, (pd.DataFrame, pd.Series)):
        a = a.to_numpy()
    if isinstance(b, (pd.DataFrame, pd.Series)):
        b = b.to_numpy()
    if isinstance(a, (np.ndarray, float, int, np.floating, np.integer)) and \
            isinstance(b, (np.ndarray, float, int, np.floating, np.integer)) and not isinstance(a, bool):
        x, y = np.asarray(a), np.asarray(b)
        if x.shape != y.shape:
            return False
        if x.dtype.kind in 'fiu' and y.dtype.kind in 'fiu':
            x, y = x.astype(float), y.astype(float)
            return bool(np.all((x == y) | (np.isnan(x) & np.isnan(y)) |
                               (np.abs(x - y) <= atol + rtol * np.abs(y))))
        return bool(np.array_equal(x, y))
    if isinstance(a, enum.Enum) or isinstance(b, enum.Enum):
        return getattr(a, 'name', a) == getattr(b, 'name', b)
    return a == b


def bfs(build, ops, depth, on_state, dedup=True, dedup_from_depth=3):
    """build(history) -> fresh object after replaying history; ops(history) -> iterable of next operations;
    on_state(obj, history) is the invariant / oracle, evaluated on EVERY reached state (before deduplication).
    Histories shorter than dedup_from_depth are always expanded, even when their fingerprint was seen before (the
    fingerprint deliberately ignores some library-internal scipy attributes; not merging shallow states keeps the
    search exhaustive over all short sequences regardless).
    Returns (number of distinct states, number of transitions, max depth reached)."""
    seen = {key(build(()))}
    frontier = [()]
    transitions = 0
    maxd = 0
    while frontier:
        hist = frontier.pop(0)
        if len(hist) >= depth:
            continue
        for op in ops(hist):
            nh = hist + (op,)
            obj = build(nh)
            transitions += 1
            maxd = max(maxd, len(nh))
            on_state(obj, nh)
            k = key(obj)
            if not dedup or k not in seen or len(nh) < dedup_from_depth:
                frontier.append(nh)
            seen.add(k)
    return len(seen), transitions, maxd


def selftest():
    class Counter:
        def __init__(self):
            self.n = 0
            self.junk = np.array([1.0, np.nan])
    seen_bad = []

    def build(h):
        c = Counter()
        for op in h:
            c.n = (c.n + (1 if op == 'inc' else 2)) % 5
        return c
    st, tr, md = bfs(build, lambda h: ('inc', 'inc2'), 6, lambda o, h: seen_bad.append(h) if o.n == 4 else None)
    assert st == 5 and tr >= 10 and seen_bad and min(map(len, seen_bad)) == 2, (st, tr, seen_bad[:3])   # planted "bug" n==4
    assert values_equal({'a': np.array([1.0, np.nan])}, {'a': np.array([1.0, np.nan])})
    assert not values_equal((1.0, 2.0), (1.0, 2.5))
    assert key(Counter()) == key(Counter())
    return True
