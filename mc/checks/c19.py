"""C19 - model lifecycle: fit is a pure function of its inputs; misuse fails loudly.

E2 (model checking): for every model configuration, breadth-first search over sequences of fit(dataset) calls
(with the full query set after every fit, so that caches are populated) on ONE object; differential oracle: the
object reached by any history ending in an accepted fit(d) must be observably identical to a fresh equal object
fitted once on d. Plus: unfitted queries raise NotFittedError, invalid multivariate inputs raise ValueError and
leave the model unfitted, get_instance clones, independence of uninitialised memory (np.empty poison alphabet) and
of the prior global RNG state.
"""
import warnings

import numpy as np
import pandas as pd

from mc import engine, seams, seq, tables, uni, zoo

PROPERTY = 'C19'
LEVEL = 'model_checking'
ENGINE = 'E2-sequence-explorer'
ENGINES = ('E2-sequence-explorer', 'E3-environment-explorer')
TECHNIQUE = ('explicit-state BFS over all sequences of fit(dataset) calls (length <= 3; 2 for slow configurations) on one real '
             'object per configuration, differential oracle "fresh object fitted once on the last dataset" after every '
             'transition; exhaustive enumeration of unfitted queries, invalid inputs, get_instance prototype forms, and of '
             'the np.empty poison alphabet x prior global RNG states')
LEVEL_TEXT = ('all fit histories up to the bound over a dataset alphabet (different sizes, ranges, constants, failing fits) '
              'are executed for every configuration of every model class and compared with a fresh fit; uninitialised '
              'memory is owned through the poison alphabet. Longer histories and other datasets are not explored.')
LEVEL_NOTE = ('trusted: the observers of mc/zoo.py; fits documented as randomised (KDE sample_size, Univariate '
              'selection_sample_size) are compared under the same global seed')
RULE = ('configurations: 8 univariate classes (+bounds, KDE options, wrapper variants), 3 bivariate, 3 Gaussian multivariate, 3 '
        'vines; dataset alphabet of 4-5 per kind incl. constants / failing inputs; all fit sequences of length <= 3 (2); + '
        'unfitted x query, invalid x class, prototype forms, poison x prior RNG state; non-trivial = every transition; distinct = '
        'distinct (configuration, whole-object state)')
ASSUMPTIONS = ['two datasets are different tables/arrays built from specs; a fresh object is built from the same constructor spec']

UNI_DATA = {'A': ('normal', 0.0, 1.0, 40), 'B': ('gamma2', 50.0, 10.0, 90), 'C1': ('const', 3.0, 20),
            'C2': ('const', -7.5, 5), 'C0': ('const', 0.0, 8), 'S': ('uniform', 0.0, 1.0, 5)}
UNI_CONFIGS = [('beta',), ('gamma',), ('gaussian',), ('loglaplace',), ('student_t',), ('uniform',), ('truncated',),
               ('truncated', 'fixed-bounds'), ('kde', None, None, False), ('kde', 'silverman', None, False),
               ('kde', None, 15, False), ('kde', None, 15, False, 'seeded'), ('univariate', 'default'), ('univariate', 'parametric'),
               ('univariate', 'selection-sample')]
BIV_DATA = {'pos': 0.4, 'strong': 0.8, 'neg': -0.5, 'tau0': 0.0}
GM_DATA = {'T1': (3, 'mixed', 'rotated', (), 40, 'str'), 'T2': (2, 'equi+', 'normal', (), 90, 'int'),
           'T3': (3, 'ar1', 'rotated', (1,), 30, 'str'), 'N3': ('ndarray', (3, 'ar1', 'normal', (), 35, 'plain')),
           'N2': ('ndarray', (2, 'equi-', 'rotated', (), 30, 'plain')), 'EMPTY': 'empty', 'NAN': 'nan', 'OBJ': 'object'}
VINE_DATA = {'V1': (3, 'mixed', 'rotated', (), 40, 'plain'), 'V2': (2, 'equi+', 'rotated', (), 40, 'str'),
             'V3': (4, 'ar1', 'normal', (), 50, 'str'), 'EMPTY': 'empty', 'NAN': 'nan',
             # the same tables fitted with an explicit truncation: a later plain fit must not inherit it
             'V3t1': ('trunc', 1, (4, 'ar1', 'normal', (), 50, 'str')), 'V1t1': ('trunc', 1, (3, 'mixed', 'rotated', (), 40, 'plain'))}
RANDOMISED_BY_DESIGN = {('kde', None, 15, False), ('univariate', 'selection-sample')}


def bounds(tier):
    return {'uni_configs': len(UNI_CONFIGS), 'datasets_per_kind': {'uni': 6, 'biv': 4, 'gm': 8, 'vine': 7},
            'depth': {'fast': 3 if tier == 'quick' else 4, 'slow': 2 if tier == 'quick' else 3}, 'poisons': ['nan', 0.0, 0.731, -0.9]}


def cases(tier, seed):
    out = []
    deep = 0 if tier == 'quick' else 1
    for c in UNI_CONFIGS:
        slow = c[0] == 'univariate'
        out.append(('refit', 'uni', c, (2 if slow else 3) + deep))
    for f in ('clayton', 'gumbel', 'frank'):
        out.append(('refit', 'biv', f, 3 + deep))
    for c in ('gaussian-class', 'kde-instance', 'default', 'flaky-dict') + (() if tier == 'quick' else ('dict', 'uniform-name')):
        out.append(('refit', 'gm', c, 2 + (deep if c != 'default' else 0)))
    for v in ('center', 'direct', 'regular'):
        out.append(('refit', 'vine', v, 2 + deep))
    out.append(('unfitted', 0, 0, 0))
    out.append(('invalid', 0, 0, 0))
    out.append(('get_instance', 0, 0, 0))
    for v in ('center', 'direct', 'regular'):
        for d in ('V1', 'V3'):
            out.append(('poison', 'vine', v, d))
    out.append(('poison', 'gm', 'gaussian-class', 'T1'))
    out.sort(key=lambda c: (c[0] != 'refit' or c[1] not in ('vine', 'gm'), c[0] != 'poison'))
    return out


# ------------------------------------------------------------------------------------------------
def new_model(kind, cfg):
    import copulas.univariate as U
    if kind == 'uni':
        if cfg == ('truncated', 'fixed-bounds'):
            return U.TruncatedGaussian(minimum=-100.0, maximum=1000.0)
        if cfg == ('kde', None, 15, False, 'seeded'):
            # a model seed drives sample(), not fit(): the size-15 resample of fit comes from the global generator (seeded by
            # do_fit), so a re-fitted seeded KDE equals a fresh seeded KDE
            return U.GaussianKDE(sample_size=15, random_state=3)
        if cfg == ('univariate', 'selection-sample'):
            return U.Univariate(selection_sample_size=12, candidates=[U.GaussianUnivariate, U.UniformUnivariate,
                                                                      U.GammaUnivariate])
        return uni.make_model(cfg)
    if kind == 'biv':
        from copulas.bivariate.base import Bivariate
        return Bivariate(copula_type=cfg)
    if kind == 'gm':
        from copulas.multivariate import GaussianMultivariate
        if cfg == 'flaky-dict':
            # 'a' cannot be fitted on T3 (constant -3.3) but can on T1; 'c' the other way round: a Gaussian fallback taken in one
            # fit must not become the configuration of the next
            from mc.boom import FlakyUniform
            dist = {'a': FlakyUniform, 'c': FlakyUniform, 'b': U.GaussianKDE(bw_method=0.5)}
        elif cfg == 'dict':
            dist = {'b': U.GaussianUnivariate, 'c': 'copulas.univariate.uniform.UniformUnivariate',
                    0: U.GaussianKDE(bw_method='silverman'), 2: U.GaussianUnivariate}          # 'a' and array columns: default
        else:
            dist = tables.make_config(cfg, [])
        return GaussianMultivariate() if dist is None else GaussianMultivariate(distribution=dist)
    from copulas.multivariate import VineCopula
    with warnings.catch_warnings():
        warnings.simplefilter('ignore')
        return VineCopula(cfg)


def data_for(kind, name):
    from mc import alphabets as A
    if kind == 'uni':
        return uni.dataset(UNI_DATA[name])
    if kind == 'biv':
        return A.designed_tau_array(60, BIV_DATA[name])
    spec = (GM_DATA if kind == 'gm' else VINE_DATA)[name]
    if spec == 'empty':
        return pd.DataFrame({'a': [], 'b': []}, dtype=float)
    if spec == 'nan':
        return pd.DataFrame({'a': [1.0, np.nan, 3.0, 4.0], 'b': [2.0, 1.0, 0.5, 3.0]})
    if spec == 'object':
        return pd.DataFrame({'a': ['x', 'y', 'z'], 'b': [1.0, 2.0, 3.0]})
    if isinstance(spec, tuple) and spec[0] == 'ndarray':
        return tables.gaussian_copula_table(spec[1])[0].to_numpy()
    if isinstance(spec, tuple) and spec[0] == 'trunc':
        return tables.gaussian_copula_table(spec[2])[0]
    return tables.gaussian_copula_table(spec)[0]


def obs_spec(kind, cfg, name):
    """The zoo spec used only to pick probe points for the observers."""
    if kind == 'uni':
        return ('uni', cfg, UNI_DATA[name])
    if kind == 'biv':
        return ('biv', cfg, 1.0)
    if kind == 'gm':
        spec = GM_DATA[name]
        if isinstance(spec, tuple) and spec[0] == 'ndarray':
            spec = ('ndarray',) + tuple(spec[1])
        return ('gm', cfg, spec)
    spec = VINE_DATA[name]
    return ('vine', cfg, spec[2] if isinstance(spec, tuple) and spec[0] == 'trunc' else spec)


def do_fit(m, kind, name):
    np.random.seed(77)
    X = data_for(kind, name)
    X = X.copy()
    spec = VINE_DATA.get(name) if kind == 'vine' else None
    if isinstance(spec, tuple) and spec[0] == 'trunc':
        return zoo.attempt(m.fit, X, truncated=spec[1])
    return zoo.attempt(m.fit, X)


def observe(m, kind, cfg, name):
    if kind in ('gm', 'vine') and isinstance((GM_DATA if kind == 'gm' else VINE_DATA)[name], str):
        return {'after-invalid': zoo.attempt(m.to_dict) if kind == 'gm' else None}
    return zoo.observe(m, obs_spec(kind, cfg, name), light=True)


def run_case(case):
    r = engine.new_result()
    kind0 = case[0]
    if kind0 == 'refit':
        return _refit(r, case)
    if kind0 == 'unfitted':
        return _unfitted(r, case)
    if kind0 == 'invalid':
        return _invalid(r, case)
    if kind0 == 'get_instance':
        return _get_instance(r, case)
    return _poison(r, case)


def _refit(r, case):
    _, kind, cfg, depth = case
    names = list({'uni': UNI_DATA, 'biv': BIV_DATA, 'gm': GM_DATA, 'vine': VINE_DATA}[kind])
    label = cfg if isinstance(cfg, str) else ':'.join(map(str, cfg))
    fresh = {}
    for n in names:
        m = new_model(kind, cfg)
        res = do_fit(m, kind, n)
        fresh[n] = (res if isinstance(res, zoo.Raised) else None, observe(m, kind, cfg, n))
        # (2) two fresh equal objects agree
        m2 = new_model(kind, cfg)
        res2 = do_fit(m2, kind, n)
        o2 = observe(m2, kind, cfg, n)
        r.tr(2)
        if not (seq.values_equal(fresh[n][1], o2) and (isinstance(res, zoo.Raised) == isinstance(res2, zoo.Raised))):
            r.violation(f'C19:{kind}:{label}:two-fresh-fits-differ', f'{kind} {label}: two fresh objects fitted on {n} differ: '
                        f'{_diff(fresh[n][1], o2)}', case=case)
    # (2b) two objects alive at the same time: fitting the second (on other data) must not change what the first answers
    ok_names = [n for n in names if fresh[n][0] is None]
    for i, n1 in enumerate(ok_names):
        n2 = ok_names[(i + 1) % len(ok_names)]
        if n2 == n1:
            continue
        m1 = new_model(kind, cfg)
        do_fit(m1, kind, n1)
        m2 = new_model(kind, cfg)
        do_fit(m2, kind, n2)
        o1 = observe(m1, kind, cfg, n1)
        r.tr(2)
        r.ev()
        if not seq.values_equal(o1, fresh[n1][1]):
            r.violation(f'C19:{kind}:{label}:models-coupled', f'{kind} {label}: a model fitted on {n1} answers differently once '
                        f'ANOTHER object of the same configuration has been fitted on {n2}: {_diff(o1, fresh[n1][1])}', case=case)
            break
    cache = {}

    def build(hist):
        """Replay: fresh configured object, fit every dataset of the history in order, querying after each fit."""
        if hist in cache:
            return cache[hist]
        m = new_model(kind, cfg)
        last = None
        for n in hist:
            last = do_fit(m, kind, n)
            observe(m, kind, cfg, n)
        cache.clear()
        cache[hist] = (m, last)
        return cache[hist]

    def keyed_build(hist):
        return build(hist)[0]

    def on_state(m, hist):
        r.tr()
        r.ev()
        r.nontriv()
        n = hist[-1]
        _, last = build(hist)
        exp_exc, exp_obs = fresh[n]
        tag = f'{kind} {label}: fit history {" -> ".join(hist)}'
        prev = 'after-constant' if (kind == 'uni' and any(h in ('C1', 'C2', 'C0') for h in hist[:-1])) else \
            'after-failed-fit' if any(fresh[h][0] is not None for h in hist[:-1]) else 'after-other-data'
        if isinstance(last, zoo.Raised) != (exp_exc is not None) or \
                (isinstance(last, zoo.Raised) and last.name != exp_exc.name):
            r.violation(f'C19:{kind}:{label}:refit-outcome:{prev}', f'{tag}: the last fit {"raised " + last.name if isinstance(last, zoo.Raised) else "succeeded"}, '
                        f'on a fresh object it {"raises " + exp_exc.name if exp_exc else "succeeds"}', case=case)
            return
        if exp_exc is not None:
            return                      # a refused fit: nothing is promised about the object afterwards
        got = observe(m, kind, cfg, n)
        if not seq.values_equal(got, exp_obs):
            if kind == 'uni' and cfg[0] == 'kde' and cfg[2] is None and isinstance(got.get('to_dict'), dict):
                # cause: a KDE built WITHOUT sample_size stores a resample instead of the training data
                stored = np.sort(np.ravel(np.asarray(got['to_dict'].get('dataset'), float)))
                # (known finding: the size is remembered by the first fit on NON-constant data; a resample after constant
                # fits only keeps its own signature and is reported)
                earlier_nonconst = any(h not in ('C1', 'C2', 'C0') and fresh[h][0] is None for h in hist[:-1])
                if earlier_nonconst and not np.array_equal(stored, np.sort(data_for(kind, n))):
                    prev = 'kde-resampled-without-sample_size'
            r.violation(f'C19:{kind}:{label}:refit-differs-from-fresh:{prev}', f'{tag}: differs from a fresh object fitted on '
                        f'{n}: {_diff(got, exp_obs)}', case=case)

    states, trans, maxd = seq.bfs(keyed_build, lambda h: names, depth, on_state, dedup_from_depth=min(depth, 3))
    r['states'] = [engine.digest((kind, label, i)) for i in range(states)]
    r.hit(f'refit:{kind}')
    r.outcome(f'{kind}:states={states}')
    r['sample'] = {'kind': kind, 'config': label, 'dataset_alphabet': names, 'depth': depth, 'states': states,
                   'transitions': trans}
    return r


def _diff(a, b):
    if isinstance(a, dict) and isinstance(b, dict):
        for k in a:
            if not seq.values_equal(a.get(k), b.get(k)):
                return f'{k}: {_sh(a.get(k))} vs {_sh(b.get(k))}'
    return f'{_sh(a)} vs {_sh(b)}'


def _sh(v):
    s = repr(v).replace('\n', ' ')
    return s if len(s) < 150 else s[:147] + '...'


def _unfitted(r, case):
    import copulas.univariate as U
    from copulas.bivariate.base import Bivariate
    from copulas.multivariate import GaussianMultivariate, VineCopula
    x = np.array([0.1, 0.5, 0.9])
    X2 = np.array([[0.2, 0.3], [0.6, 0.7]])
    df = pd.DataFrame({'a': [0.1, 0.5], 'b': [1.0, 2.0]})
    objs = []
    for c in UNI_CONFIGS:
        objs.append((f'uni:{":".join(map(str, c))}', lambda c=c: new_model('uni', c),
                     [('probability_density', (x,)), ('cumulative_distribution', (x,)), ('percent_point', (x,)),
                      ('log_probability_density', (x,)), ('sample', (3,)), ('to_dict', ()), ('pdf', (x,)), ('cdf', (x,)),
                      ('ppf', (x,))]))
    for f in ('clayton', 'gumbel', 'frank'):
        objs.append((f'biv:{f}', lambda f=f: Bivariate(copula_type=f),
                     [('probability_density', (X2,)), ('cumulative_distribution', (X2,)), ('partial_derivative', (X2,)),
                      ('percent_point', (x[:2], x[:2])), ('sample', (3,)), ('log_probability_density', (X2,))]))
    objs.append(('gm', lambda: GaussianMultivariate(),
                 [('probability_density', (df,)), ('cumulative_distribution', (df,)), ('log_probability_density', (df,)),
                  ('sample', (3,)), ('to_dict', ())]))
    for v in ('center', 'direct', 'regular'):
        objs.append((f'vine:{v}', lambda v=v: VineCopula(v), [('sample', (3,)), ('get_likelihood', (X2[:1],))]))
    for label, mk, queries in objs:
        for q, args in queries:
            with warnings.catch_warnings():
                warnings.simplefilter('ignore')
                m = mk()
            res = zoo.attempt(getattr(m, q), *args)
            r.tr()
            r.ev()
            r.state(('unfitted', label, q))
            r.nontriv()
            if not (isinstance(res, zoo.Raised) and res.name == 'NotFittedError'):
                what = f'raised {res.name}' if isinstance(res, zoo.Raised) else f'returned {_sh(res)}'
                r.violation(f'C19:unfitted:{label.split(":")[0]}:{q}:{res.name if isinstance(res, zoo.Raised) else "returned"}',
                            f'unfitted {label}.{q}(...) {what} instead of raising NotFittedError', case=case)
    # ... also for an EMPTY batch (zero rows): no shortcut may answer before the fitted check
    empties = []
    for c in UNI_CONFIGS:
        empties.append((f'uni:{":".join(map(str, c))}', lambda c=c: new_model('uni', c),
                        [(q, (np.array([], dtype=float),)) for q in ('probability_density', 'cumulative_distribution', 'percent_point',
                                                                      'log_probability_density', 'pdf', 'cdf', 'ppf')] + [('sample', (0,))]))
    for f in ('clayton', 'gumbel', 'frank'):
        empties.append((f'biv:{f}', lambda f=f: Bivariate(copula_type=f),
                        [(q, (np.empty((0, 2)),)) for q in ('probability_density', 'cumulative_distribution', 'partial_derivative',
                                                            'pdf', 'cdf')] + [('sample', (0,))]))
    empties.append(('gm', lambda: GaussianMultivariate(),
                    [(q, (df.iloc[:0],)) for q in ('probability_density', 'cumulative_distribution', 'log_probability_density', 'pdf',
                                                   'cdf')] + [('cumulative_distribution', (np.empty((0, 2)),)), ('sample', (0,))]))
    for v in ('center', 'direct', 'regular'):
        empties.append((f'vine:{v}', lambda v=v: VineCopula(v), [('sample', (0,))]))
    for label, mk, queries in empties:
        for q, args in queries:
            with warnings.catch_warnings():
                warnings.simplefilter('ignore')
                m = mk()
            if not hasattr(m, q):
                continue
            res = zoo.attempt(getattr(m, q), *args)
            r.tr()
            r.ev()
            r.state(('unfitted-empty-batch', label, q))
            if not (isinstance(res, zoo.Raised) and res.name == 'NotFittedError'):
                what = f'raised {res.name}' if isinstance(res, zoo.Raised) else f'returned {_sh(res)}'
                r.violation(f'C19:unfitted:{label.split(":")[0]}:{q}:empty-batch:{res.name if isinstance(res, zoo.Raised) else "returned"}',
                            f'unfitted {label}.{q}(<empty batch>) {what} instead of raising NotFittedError', case=case)
    # a FRESH object whose first fit is refused has never been fitted: it still raises NotFittedError on every query (it
    # must not answer from half-written state). Inputs: constants outside user bounds, NaN, +-inf, empty, text.
    refusable = {'const-outside-bounds': np.full(30, 2500.0), 'const-below-bounds': np.full(12, -350.0),
                 'nan': np.array([1.0, np.nan, 3.0, 2.0]), 'all-nan': np.full(6, np.nan), 'inf': np.array([1.0, np.inf, 3.0, 2.0]),
                 'const-inf': np.full(5, np.inf), 'empty': np.array([], dtype=float), 'text': np.array(['a', 'b', 'c'], dtype=object),
                 'const-text': np.array(['k', 'k', 'k'], dtype=object), 'one-value': np.array([4.2]), 'none': None}
    n_refused = 0
    uni_objs = [o for o in objs if o[0].startswith('uni:')]
    for label, mk, queries in uni_objs:
        for dname, data in refusable.items():
            with warnings.catch_warnings():
                warnings.simplefilter('ignore')
                m = mk()
                with np.errstate(all='ignore'):
                    np.random.seed(5)
                    res = zoo.attempt(m.fit, None if data is None else data.copy())
            r.tr()
            if not isinstance(res, zoo.Raised):
                continue                     # the fit was accepted: the object is fitted, nothing to check here
            n_refused += 1
            for q, args in queries:
                with warnings.catch_warnings():
                    warnings.simplefilter('ignore')
                    with np.errstate(all='ignore'):
                        out = zoo.attempt(getattr(m, q), *args)
                r.ev()
                r.state(('refused-first-fit', label, dname, q))
                if not (isinstance(out, zoo.Raised) and out.name == 'NotFittedError'):
                    what = f'raised {out.name}' if isinstance(out, zoo.Raised) else f'returned {_sh(out)}'
                    r.violation(f'C19:refused-first-fit:{label.split(":")[1]}:{q}:{out.name if isinstance(out, zoo.Raised) else "returned"}',
                                f'fresh {label}: fit({dname}) raised {res.name} ({res.msg}); afterwards {q}(...) {what} instead of '
                                f'raising NotFittedError', case=case)
    # the same for the bivariate families: after a refused first fit a query raises (NotFittedError, or ValueError for the
    # inadmissible theta) - it never returns an answer
    from mc import alphabets as A_
    biv_refusable = {'negative-tau': A_.designed_tau_array(60, -0.5), 'tau=-1': np.column_stack([np.linspace(0.05, 0.95, 19), np.linspace(0.95, 0.05, 19)]),
                     'constant-column': np.column_stack([np.full(20, 0.5), np.linspace(0.1, 0.9, 20)]),
                     'out-of-range': np.array([[0.1, 0.2], [1.5, 0.3], [0.4, 0.9]]), 'nan': np.array([[0.1, 0.2], [np.nan, 0.3], [0.4, 0.9]]),
                     'one-row': np.array([[0.3, 0.6]]), 'empty': np.empty((0, 2))}
    for label, mk, queries in [o for o in objs if o[0].startswith('biv:')]:
        for dname, data in biv_refusable.items():
            with warnings.catch_warnings():
                warnings.simplefilter('ignore')
                m = mk()
                with np.errstate(all='ignore'):
                    res = zoo.attempt(m.fit, data.copy())
            r.tr()
            if not isinstance(res, zoo.Raised):
                continue
            n_refused += 1
            for q, args in queries:
                with warnings.catch_warnings():
                    warnings.simplefilter('ignore')
                    with np.errstate(all='ignore'):
                        out = zoo.attempt(getattr(m, q), *args)
                r.ev()
                r.state(('refused-first-fit', label, dname, q))
                if not (isinstance(out, zoo.Raised) and out.name in ('NotFittedError', 'ValueError')):
                    what = f'raised {out.name}' if isinstance(out, zoo.Raised) else f'returned {_sh(out)}'
                    r.violation(f'C19:refused-first-fit:{label}:{q}:{out.name if isinstance(out, zoo.Raised) else "returned"}',
                                f'fresh {label}: fit({dname}) raised {res.name} ({res.msg}); afterwards {q}(...) {what} instead of '
                                f'raising NotFittedError / ValueError', case=case)
    engine.require(n_refused >= 20, f'only {n_refused} refused first fits')
    r.hit('unfitted')
    r['sample'] = {'unfitted_objects': len(objs), 'refused_first_fits': n_refused}
    return r


def _invalid(r, case):
    from copulas.multivariate import GaussianMultivariate, VineCopula
    bad = {'empty-frame': pd.DataFrame({'a': [], 'b': []}, dtype=float),
           'empty-array': np.empty((0, 2)),
           'object-frame': pd.DataFrame({'a': ['x', 'y', 'z'], 'b': [1.0, 2.0, 3.0]}),
           'nan-frame': pd.DataFrame({'a': [1.0, np.nan, 3.0, 4.0], 'b': [2.0, 1.0, 0.5, 3.0]}),
           'nan-array': np.array([[1.0, 2.0], [np.nan, 1.0], [3.0, 0.5]])}
    # non-numeric columns that a lenient validator could coerce to float
    n_ = 12
    x_ = np.linspace(0.1, 3.0, n_)
    y_ = np.sin(x_) + x_
    bad.update({
        'numeric-strings-frame': pd.DataFrame({'a': x_, 'b': [f'{v:.2f}' for v in y_]}),
        'datetime-frame': pd.DataFrame({'a': x_, 'b': pd.to_datetime('2020-01-01') + pd.to_timedelta(np.arange(n_), 'D')}),
        'timedelta-frame': pd.DataFrame({'a': x_, 'b': pd.to_timedelta(np.arange(n_), 'D')}),
        'digit-categorical-frame': pd.DataFrame({'a': x_, 'b': pd.Categorical([str(i % 5) for i in range(n_)])}),
        'string-array': np.array([['1.0', '2.0'], ['0.5', '1.5'], ['3.0', '0.2']]),
        'nan-in-last-row-frame': pd.DataFrame({'a': x_, 'b': np.where(np.arange(n_) == n_ - 1, np.nan, y_)}),
    })
    gm_cls = lambda: GaussianMultivariate(distribution='copulas.univariate.gaussian.GaussianUnivariate')   # noqa: E731
    for cname, mk in (('gm', lambda: GaussianMultivariate()), ('gm-gaussian', gm_cls), ('vine-center', lambda: VineCopula('center')),
                      ('vine-direct', lambda: VineCopula('direct')), ('vine-regular', lambda: VineCopula('regular'))):
        for bname, X in bad.items():
            with warnings.catch_warnings():
                warnings.simplefilter('ignore')
                m = mk()
            res = zoo.attempt(m.fit, X.copy())
            r.tr()
            r.ev()
            r.nontriv()
            r.state(('invalid', cname, bname))
            if not (isinstance(res, zoo.Raised) and res.name == 'ValueError'):
                r.violation(f'C19:invalid:{cname}:{bname}:not-rejected', f'{cname}.fit({bname}) '
                            f'{"raised " + res.name if isinstance(res, zoo.Raised) else "was accepted"}; expected ValueError',
                            case=case)
                continue
            after = zoo.attempt(m.sample, 2)
            if not (isinstance(after, zoo.Raised) and after.name == 'NotFittedError'):
                r.violation(f'C19:invalid:{cname}:{bname}:not-unfitted-afterwards', f'{cname} after a rejected fit({bname}): '
                            f'sample {"raised " + after.name if isinstance(after, zoo.Raised) else "returned a value"}, '
                            f'expected NotFittedError', case=case)
    r.hit('invalid')
    r['sample'] = {'invalid_inputs': list(bad)}
    return r


def _get_instance(r, case):
    import copulas.univariate as U
    from copulas.utils import get_instance
    from copulas.multivariate import GaussianMultivariate
    x = uni.dataset(('normal', 0.0, 1.0, 40))
    fitted_kde = U.GaussianKDE(bw_method=0.5, sample_size=None)
    fitted_kde.fit(x)
    fitted_tg = U.TruncatedGaussian(-50.0, 60.0)
    fitted_tg.fit(x)
    w = np.linspace(1, 2, 40)
    protos = [
        ('name', 'copulas.univariate.gaussian.GaussianUnivariate', {}, 'GaussianUnivariate', None),
        ('name+kwargs', 'copulas.univariate.gaussian_kde.GaussianKDE', {'bw_method': 'silverman'}, 'GaussianKDE',
         lambda o: o.bw_method == 'silverman'),
        ('class', U.BetaUnivariate, {}, 'BetaUnivariate', None),
        ('class+kwargs', U.TruncatedGaussian, {'minimum': -3.0, 'maximum': 9.0}, 'TruncatedGaussian',
         lambda o: (o.min, o.max) == (-3.0, 9.0)),
        ('instance-kde-kw', U.GaussianKDE(bw_method=0.3, sample_size=25, weights=None), {}, 'GaussianKDE',
         lambda o: o.bw_method == 0.3 and o._sample_size == 25),
        ('instance-kde-weights', U.GaussianKDE(weights=w), {}, 'GaussianKDE', lambda o: np.array_equal(o.weights, w)),
        ('instance-kde-positional', U.GaussianKDE(30, None, 'silverman'), {}, 'GaussianKDE',
         lambda o: o.bw_method == 'silverman' and o._sample_size == 30),
        ('fitted-instance-kde', fitted_kde, {}, 'GaussianKDE', lambda o: o.bw_method == 0.5),
        ('instance-truncated-positional', U.TruncatedGaussian(-5.0, 25.0), {}, 'TruncatedGaussian',
         lambda o: (o.min, o.max) == (-5.0, 25.0)),
        ('fitted-instance-truncated', fitted_tg, {}, 'TruncatedGaussian', lambda o: (o.min, o.max) == (-50.0, 60.0)),
        ('instance-wrapper-filters', U.Univariate(parametric=U.ParametricType.PARAMETRIC, bounded=U.BoundedType.BOUNDED), {},
         'Univariate', lambda o: {c.__name__ for c in o.candidates} == {'BetaUnivariate', 'UniformUnivariate', 'TruncatedGaussian'}),
        ('instance-wrapper-candidates-positional', U.Univariate([U.GammaUnivariate, U.UniformUnivariate]), {}, 'Univariate',
         lambda o: [c.__name__ for c in o.candidates] == ['GammaUnivariate', 'UniformUnivariate']),
        ('instance+kwargs', U.GaussianKDE(bw_method=0.3), {'bw_method': 0.9}, 'GaussianKDE', lambda o: o.bw_method == 0.9),
        ('instance-gm', GaussianMultivariate(distribution=U.GammaUnivariate), {}, 'GaussianMultivariate',
         lambda o: o.distribution is U.GammaUnivariate),
    ]
    for label, p, kw, cname, opt in protos:
        before = seq.key(p) if not isinstance(p, (str, type)) else None
        res = zoo.attempt(get_instance, p, **kw)
        r.tr()
        r.ev()
        r.nontriv()
        r.state(('get_instance', label))
        if isinstance(res, zoo.Raised):
            r.violation(f'C19:get_instance:{label}:raises', f'get_instance({label}) raised {res.name}: {res.msg}', case=case)
            continue
        if res is p or type(res).__name__ != cname:
            r.violation(f'C19:get_instance:{label}:class-or-identity', f'get_instance({label}) returned '
                        f'{"the prototype itself" if res is p else type(res).__name__}', case=case)
            continue
        if getattr(res, 'fitted', False):
            r.violation(f'C19:get_instance:{label}:fitted', f'get_instance({label}) returned a fitted object', case=case)
        elif hasattr(res, 'cdf') and not isinstance(res, GaussianMultivariate):
            q = zoo.attempt(res.cdf, np.array([0.0]))
            if not (isinstance(q, zoo.Raised) and q.name == 'NotFittedError'):
                r.violation(f'C19:get_instance:{label}:fitted', f'get_instance({label}): the clone answers cdf without being '
                            f'fitted', case=case)
        if opt is not None and not opt(res):
            r.violation(f'C19:get_instance:{label}:options-lost', f'get_instance({label}): the clone is not configured like the '
                        f'prototype', case=case)
        # fitting the clone must not touch the prototype
        if hasattr(res, 'fit') and not isinstance(res, GaussianMultivariate):
            zoo.attempt(res.fit, x.copy())
        if before is not None and seq.key(p) != before:
            r.violation(f'C19:get_instance:{label}:prototype-modified', f'get_instance({label}) or fitting the clone modified the '
                        f'prototype', case=case)
    # users of a prototype: several models configured with the SAME prototype object are independent of each other (each works
    # on its own clone), for candidate lists of length 1 and 2 and for GaussianMultivariate columns
    xa, xb = uni.dataset(('normal', 0.0, 1.0, 40)), uni.dataset(('gamma2', 50.0, 10.0, 90))
    pts = np.array([-1.0, 0.0, 0.7, 40.0, 55.0, 70.0])

    def watch(m):
        return {q: zoo.attempt(lambda q=q: np.asarray(getattr(m, q)(pts.copy()))) for q in
                ('probability_density', 'cumulative_distribution')} | {'to_dict': zoo.attempt(m.to_dict)}

    makers = [('truncated(-500,900)', lambda: U.TruncatedGaussian(minimum=-500.0, maximum=900.0)),
              ('kde(silverman)', lambda: U.GaussianKDE(bw_method='silverman')), ('gaussian', lambda: U.GaussianUnivariate()),
              ('student_t', lambda: U.StudentTUnivariate())]
    for plabel, mk in makers:
        for extra in ((), (U.UniformUnivariate,)):
            proto = mk()
            before = seq.key(proto)
            u1, u2 = U.Univariate(candidates=[proto, *extra]), U.Univariate(candidates=[proto, *extra])
            fresh = U.Univariate(candidates=[mk(), *extra])
            tag = f'two Univariate(candidates=[{plabel} instance{", UniformUnivariate" if extra else ""}]) sharing the prototype'
            r.tr(3)
            r.ev()
            r.state(('shared-prototype', plabel, len(extra)))
            with warnings.catch_warnings():
                warnings.simplefilter('ignore')
                np.random.seed(3)
                e1 = zoo.attempt(u1.fit, xa.copy())
                o1 = watch(u1)
                np.random.seed(3)
                e2 = zoo.attempt(u2.fit, xb.copy())
                o1_after = watch(u1)
                np.random.seed(3)
                zoo.attempt(fresh.fit, xa.copy())
                of = watch(fresh)
            if isinstance(e1, zoo.Raised) or isinstance(e2, zoo.Raised):
                r.violation(f'C19:shared-prototype:{plabel}:fit-raises', f'{tag}: fit raised '
                            f'{e1 if isinstance(e1, zoo.Raised) else e2}', case=case)
                continue
            if not seq.values_equal(o1, o1_after):
                r.violation(f'C19:shared-prototype:{plabel}:models-coupled', f'{tag}: the model fitted on data A changed when the '
                            f'other was fitted on data B: {_diff(o1, o1_after)}', case=case)
            elif not seq.values_equal(o1, of):
                r.violation(f'C19:shared-prototype:{plabel}:differs-from-own-prototype', f'{tag}: the model fitted on A differs '
                            f'from one built with its own prototype: {_diff(o1, of)}', case=case)
            if seq.key(proto) != before or getattr(proto, 'fitted', False):
                r.violation(f'C19:shared-prototype:{plabel}:prototype-modified', f'{tag}: fitting the models modified (or fitted) '
                            f'the prototype object', case=case)
    r.hit('get_instance')
    r['sample'] = {'prototype_forms': [p[0] for p in protos], 'shared_prototypes': [m[0] for m in makers]}
    return r


def _poison(r, case):
    """No result may depend on uninitialised memory (np.empty) or on the prior global RNG state."""
    _, kind, cfg, dname = case
    ref = None
    ref_tag = None
    for poison in (float('nan'), 0.0, 0.731, -0.9):
        for gseed in (1, 2):
            with seams.seam(poison=poison) as log:
                m = new_model(kind, cfg)
                np.random.seed(gseed)
                res = zoo.attempt(m.fit, data_for(kind, dname).copy())
                if isinstance(res, zoo.Raised):
                    obs = {'fit': res}
                else:
                    obs = zoo.observe(m, obs_spec(kind, cfg, dname), light=True)
                    if kind == 'vine':
                        obs['edge-tau'] = [[e.tau for e in t.edges] for t in m.trees]
                        obs['structure'] = [[(e.L, e.R, sorted(e.D)) for e in t.edges] for t in m.trees]
            r.tr()
            r.ev()
            r.nontriv()
            r.state(('poison', kind, cfg, dname, repr(poison), gseed))
            tag = f'np.empty filled with {poison!r}, prior global seed {gseed}'
            if ref is None:
                ref, ref_tag = obs, tag
            elif not seq.values_equal(obs, ref):
                which = 'uninitialised-memory' if repr(poison) != 'nan' or gseed == 1 else 'prior-rng-state'
                r.violation(f'C19:{kind}:{cfg}:depends-on-{which}', f'{kind} {cfg} fitted on {dname}: result under [{tag}] differs '
                            f'from [{ref_tag}]: {_diff(obs, ref)}', case=case)
                break
        else:
            continue
        break
    r.hit('poison')
    r['sample'] = {'kind': kind, 'config': cfg, 'dataset': dname, 'poisons': ['nan', 0.0, 0.731, -0.9], 'global_seeds': [1, 2]}
    return r


def finish(agg, tier):
    for k in ('refit:uni', 'refit:biv', 'refit:gm', 'refit:vine', 'unfitted', 'invalid', 'get_instance', 'poison'):
        engine.require(agg['hits'].get(k, 0) >= 1, f'{k} missing')
    engine.require(agg['trans'] >= 1500, 'too few transitions')
