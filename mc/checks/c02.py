"""C02 - the fitted Gaussian-copula correlation is a valid, correctly computed matrix.

E1: (table zoo U structural tables) x marginal configurations. Oracle: Pearson correlation (from the definition)
of norm.ppf(clip(cdf_j(x_j))) through the FITTED marginals, NaN -> 0, EPSILON ridge iff ill-conditioned; validity
of the matrix; usability (sample / density / conditional sample on every 1- and 2-column condition set).
"""
import itertools
import sys

import numpy as np
from scipy import stats

from mc import alphabets as A
from mc import engine, tables

PROPERTY = 'C02'
LEVEL = 'exploration'
ENGINE = 'E1-product-explorer'
TECHNIQUE = ('bounded-exhaustive enumeration of (table zoo + structural degenerate tables) x marginal configurations; '
             'oracle = definition-level Pearson correlation of clipped normal scores through the fitted marginals, '
             'matrix validity laws, and usability of sampling/density/conditional sampling on every <=2-column condition')
LEVEL_TEXT = ('every (table, marginal configuration) pair is fitted with the real code and the learned matrix is compared '
              'entry-wise with the reference and checked for validity; tables outside the zoo are not enumerated: '
              'exploration.')
LEVEL_NOTE = 'trusted: numpy linear algebra (eigvalsh, cond), scipy.stats.norm.ppf; the fitted marginals are those of the model'
RULE = ('table zoo (d=2..4(6), 6 correlation designs, marginal mixes, constant columns at every position) + 15 structural '
        'tables (duplicates, anti-duplicates, affine copies, constants, 2/3-row, integer, gross outliers beyond the score clip) x 9 marginal configurations; '
        'non-trivial = fit succeeded; distinct = distinct (table, configuration)')
ASSUMPTIONS = ['ridge decision may go either way when 1e15 <= cond(reference) <= 1e17 (cond itself is ill-conditioned there)']

EPS = A.EPS32
FORCED_MLE_CONFIGS = ('truncated-class', 'beta-class', 'gamma-class')


def bounds(tier):
    return {'zoo_tables': len(tables.table_zoo(tier)), 'structural_tables': len(tables.structural_tables()),
            'configs': len(tables.CONFIGS)}


def prefork():
    A.korobov_generator(70001, 3)
    for d in (2, 3, 4, 5, 6):
        for n in (31, 301, 1001):
            A.korobov_generator(n, d)


def cases(tier, seed):
    out = []
    for cfg in tables.CONFIGS:
        for t in tables.table_zoo(tier):
            if cfg in ('default',) and t[4] > 300:
                continue
            out.append(('zoo', t, cfg, seed))
        for name in tables.structural_tables():
            out.append(('struct', name, cfg, seed))
    for cfg in ('gaussian-class', 'uniform-name'):
        out.append(('big', 70001, cfg, seed))
    # ... and the second fit is given the table as a bare ndarray: the model is labelled 0..d-1 again, not by the old names
    for cfg in ('default', 'uniform-name', 'kde-instance', 'gaussian-instance'):
        for t in tables.table_zoo(tier):
            if t[4] <= 300 and t[0] <= 3 and not t[3]:
                out.append(('zoo-refit-nd', t, cfg, seed))
    # a single variable in every container: the matrix is the 1 x 1 unit matrix labelled by that column
    for cfg in ('default', 'gaussian-class'):
        out.append(('one-column', 0, cfg, seed))
    # E2 layer: ONE model object fitted (and queried) on another table with the same column names first: the correlation is
    # that of the LAST fit
    for cfg in ('default', 'uniform-name', 'kde-instance', 'dict'):
        for t in tables.table_zoo(tier):
            if t[4] <= 300 and t[0] <= 4:
                out.append(('zoo-refit', t, cfg, seed))
    out.sort(key=lambda c: (c[0] != 'big', c[2] != 'default'))
    return out


def reference_corr(gm, df):
    cols = list(df.columns)
    S = []
    for c, u in zip(cols, gm.univariates):
        cdf = np.asarray(u.cdf(df[c].to_numpy()), float)
        S.append(stats.norm.ppf(np.clip(cdf, EPS, 1 - EPS)))
    S = np.column_stack(S)
    n, d = S.shape
    R = np.full((d, d), np.nan)
    mu = S.mean(axis=0)
    D = S - mu
    for i in range(d):
        for j in range(d):
            den = np.sqrt(np.sum(D[:, i] ** 2) * np.sum(D[:, j] ** 2))
            R[i, j] = np.sum(D[:, i] * D[:, j]) / den if den > 0 else np.nan
    # a column of identical scores has no correlation (0/0); rounding in the centring must not turn it into 1.0
    const = [bool(np.all(S[:, j] == S[0, j])) or not np.isfinite(R[j, j]) for j in range(d)]
    for j in range(d):
        if const[j]:
            R[j, :] = np.nan
            R[:, j] = np.nan
    R = np.nan_to_num(R, nan=0.0)
    return R, const, S


def _one_column(r, case):
    import pandas as pd
    _, _, cfg, seed = case
    x = stats.gamma(2.0).ppf(A.midpoints(35)) + 1.0
    forms = {'ndarray (n,)': (x.copy(), [0]), 'ndarray (n,1)': (x.copy().reshape(-1, 1), [0]),
             'DataFrame 1 column': (pd.DataFrame({'only': x}), ['only']), 'named Series': (pd.Series(x, name='s'), ['s']),
             'DataFrame int label': (pd.DataFrame({7: x}), [7])}
    for fname, (obj, labels) in forms.items():
        tag = f'one variable given as {fname}, config {cfg}'
        r.tr()
        r.ev()
        r.nontriv()
        r.state(('one-column', fname, cfg))
        try:
            from copulas.multivariate import GaussianMultivariate
            dist = tables.make_config(cfg, labels)
            gm = GaussianMultivariate() if dist is None else GaussianMultivariate(distribution=dist)
            gm.fit(obj)
        except Exception as e:
            r.violation(f'C02:fit-raises:{type(e).__name__}', f'{tag}: fit raised {type(e).__name__}: {e}', case=case)
            continue
        C = gm.correlation
        ok = getattr(C, 'shape', None) == (1, 1) and list(C.index) == labels and list(C.columns) == labels and \
            abs(float(np.asarray(C)[0, 0]) - 1.0) <= 2 * EPS
        if not ok:
            r.violation('C02:one-column', f'{tag}: correlation is {getattr(C, "shape", None)} labelled '
                        f'{list(getattr(C, "index", []))[:4]}, expected the 1 x 1 unit matrix labelled {labels}', case=case)
    r.hit('one-column')
    r['sample'] = {'kind': 'one column', 'config': cfg, 'containers': list(forms)}
    return r


def run_case(case):
    kind, t, cfg, seed = case
    r = engine.new_result()
    if kind == 'one-column':
        return _one_column(r, case)
    r.state((kind, t, cfg))
    if kind in ('zoo', 'zoo-refit', 'zoo-refit-nd'):
        df, info = tables.gaussian_copula_table(t, A.shift_from_seed(seed))
        if kind == 'zoo-refit-nd':
            df = df.reset_index(drop=True)
            df.columns = list(range(df.shape[1]))          # what a model fitted on the bare array calls its columns
        tname = str(t) + (' (object previously fitted on another table and queried)' if kind == 'zoo-refit' else ' given as ndarray (object previously fitted on a labelled frame)' if kind == 'zoo-refit-nd' else '')
    elif kind == 'big':
        df = tables.big_table(t)
        tname = f'big-{t}-rows'
        r.hit('big-table')
    else:
        df = tables.structural_tables()[t]
        tname = t
    tag = f'table {tname}, config {cfg}'
    sig = 'C02'
    r.tr()
    try:
        if kind == 'zoo-refit-nd':
            named, _ = tables.gaussian_copula_table((t[0], 'equi-' if t[1] != 'equi-' else 'ar1', 'rotated', (), 30, 'str'))
            gm = tables.fit_gm(named, cfg)
            gm.sample(2)
            gm.fit(df.to_numpy().copy())
            r.hit('refit-history')
            r.tr(3)
        elif kind == 'zoo-refit':
            other = (t[0], 'equi-' if t[1] != 'equi-' else 'ar1', 'bimodal' if t[2] != 'bimodal' else 'rotated', (), 30, t[5])
            df0, _ = tables.gaussian_copula_table(other)
            df0.columns = list(df.columns)
            gm = tables.fit_gm(df0, cfg)
            gm.probability_density(df0.iloc[:3])
            gm.sample(2)
            gm.fit(df.copy())
            r.hit('refit-history')
            r.tr(3)
        else:
            gm = tables.fit_gm(df, cfg)
    except Exception as e:
        r.violation(f'{sig}:fit-raises:{type(e).__name__}', f'{tag}: fit raised {type(e).__name__}: {e}', case=case)
        return r
    r.nontriv()
    # a second model (same configuration, another table with other column names) is fitted while `gm` is alive: the matrix, the
    # columns and the marginals examined below are still those of gm's own training table
    try:
        decoy_df, _ = tables.gaussian_copula_table((2 + df.shape[1] % 2, 'equi-', 'rotated', (), 25, 'plain'))
        decoy_df.columns = [f'decoy{j}' for j in range(decoy_df.shape[1])]
        tables.fit_gm(decoy_df, cfg if not isinstance(cfg, dict) else 'default')
        r.tr()
    except Exception:
        pass
    if list(getattr(gm, 'columns', [])) != list(df.columns) and not (kind == 'zoo-refit-nd'):
        r.violation(f'{sig}:columns', f'{tag}: model.columns is {list(gm.columns)} after another model was fitted on another table; '
                    f'the training columns are {list(df.columns)}', case=case)
        return r
    cols = list(df.columns)
    C = gm.correlation
    M = np.asarray(C.to_numpy(), float)
    d = len(cols)
    if list(C.index) != cols or list(C.columns) != cols or M.shape != (d, d):
        r.violation(f'{sig}:labels', f'{tag}: correlation is labelled {list(C.index)} x {list(C.columns)}, training columns '
                    f'are {cols}', case=case)
        return r
    if not np.all(np.isfinite(M)):
        r.violation(f'{sig}:non-finite', f'{tag}: correlation has non-finite entries', case=case)
        return r
    Rref, const_scores, S = reference_corr(gm, df)
    # which columns are constant is a fact about the TRAINING DATA (a non-constant column whose fitted marginal maps
    # every value to the same score would otherwise excuse a zero row)
    const = [bool(df[c].nunique() == 1) for c in cols]
    if cfg in FORCED_MLE_CONFIGS:
        # a scipy-MLE family forced onto data of another family can come back as a degenerate fit whose CDF maps every
        # observation to the same clipped score; the Pearson correlation of such a column is 0/0 and the documented NaN -> 0
        # rule applies (measured: BetaUnivariate forced on a normal column). Where the library chooses or always can fit the
        # marginal (default selection, Gaussian, Uniform, KDE) identical scores of a non-constant column remain a violation.
        const = [a or b for a, b in zip(const, const_scores)]
    r.ev(d * d)
    ridge = EPS * np.eye(d)
    e_plain = float(np.max(np.abs(M - Rref)))
    e_ridge = float(np.max(np.abs(M - Rref - ridge)))
    ridged = e_ridge < e_plain
    err = min(e_plain, e_ridge)
    r['extra']['max_entry_err_e12'] = err * 1e12
    if err > 1e-9:
        i, j = np.unravel_index(np.argmax(np.abs(M - Rref - (ridge if ridged else 0))), M.shape)
        r.violation(f'{sig}:entry', f'{tag}: correlation[{cols[i]!r},{cols[j]!r}]={M[i, j]!r} but the Pearson correlation of '
                    f'the clipped normal scores is {Rref[i, j]!r}', case=case)
    cond = np.linalg.cond(Rref)
    need = cond > 1.0 / sys.float_info.epsilon
    borderline = 1e15 <= cond <= 1e17
    if ridged != need and not borderline:
        r.violation(f'{sig}:ridge-rule', f'{tag}: cond(reference)={cond:.3g}; ridge applied={ridged}, required={need}',
                    case=case)
    r.hit('ridge' if ridged else 'no-ridge')
    if any(const):
        r.hit('constant-column')
    if not np.array_equal(M, M.T):
        r.violation(f'{sig}:asymmetric', f'{tag}: correlation is not exactly symmetric', case=case)
    if M.min() < -1 - 2e-7 or M.max() > 1 + 2e-7:
        r.violation(f'{sig}:range', f'{tag}: entries outside [-1,1]: [{M.min()!r},{M.max()!r}]', case=case)
    for j in range(d):
        want = (0.0 if const[j] else 1.0) + (EPS if ridged else 0.0)
        if abs(M[j, j] - want) > 1e-9:
            r.violation(f'{sig}:diagonal', f'{tag}: diagonal entry of column {cols[j]!r} is {M[j, j]!r}, expected {want!r}',
                        case=case)
            break
        if const[j]:
            off = np.delete(M[j], j)
            if np.any(off != 0):
                r.violation(f'{sig}:constant-correlated', f'{tag}: constant column {cols[j]!r} has non-zero correlations',
                            case=case)
                break
    ev = np.linalg.eigvalsh((M + M.T) / 2)
    if ev.min() < -1e-9:
        r.violation(f'{sig}:not-psd', f'{tag}: smallest eigenvalue {ev.min()!r}', case=case)
    td = np.asarray(gm.to_dict()['correlation'], float)
    if not np.array_equal(td, M):
        r.violation(f'{sig}:to_dict', f'{tag}: to_dict()["correlation"] differs from the fitted matrix', case=case)
    # ---- usability ---------------------------------------------------------------------------------
    np.random.seed(5)
    try:
        smp = gm.sample(5)
        pdf = np.asarray(gm.probability_density(df.iloc[:3]), float)
        r.tr(2)
        if smp.shape != (5, d) or smp.isna().any().any() or not np.all(np.isfinite(smp.to_numpy(dtype=float))):
            r.violation(f'{sig}:unusable:sample', f'{tag}: sample(5) is not a finite 5x{d} table', case=case)
        if not np.all(np.isfinite(pdf)):
            r.violation(f'{sig}:unusable:pdf', f'{tag}: probability_density of training rows = {pdf.tolist()}', case=case)
    except Exception as e:
        r.violation(f'{sig}:unusable:raises:{type(e).__name__}', f'{tag}: sample/probability_density raised '
                    f'{type(e).__name__}: {e}', case=case)
    if kind == 'struct' or ridged or any(const):
        row = df.iloc[len(df) // 2]
        for k in (1, 2):
            for sub in itertools.combinations(cols, k):
                if len(sub) == d:
                    continue
                cond_ = {c: float(row[c]) for c in sub}
                r.tr()
                try:
                    np.random.seed(6)
                    out = gm.sample(3, conditions=cond_)
                    # +-inf is a legitimate quantile of an unbounded KDE marginal at a clipped extreme score; NaN is not
                    if out.shape != (3, d) or np.isnan(out.to_numpy(dtype=float)).any():
                        r.violation(f'{sig}:unusable:conditional-sample', f'{tag}: sample(3, conditions on {sub}) has '
                                    f'missing values', case=case)
                        break
                except Exception as e:
                    r.violation(f'{sig}:unusable:conditional-raises:{type(e).__name__}', f'{tag}: sample(3, conditions on '
                                f'{sub}) raised {type(e).__name__}: {e}', case=case)
                    break
        r.hit('conditional-usability')
    r.outcome(f'{"ridge" if ridged else "plain"}:{sum(const)}const')
    r['sample'] = {'table': tname, 'config': cfg, 'cond': float(min(cond, 1e300)), 'ridge': bool(ridged),
                   'max_entry_err': err}
    return r


def finish(agg, tier):
    for k in ('ridge', 'no-ridge', 'constant-column', 'conditional-usability'):
        engine.require(agg['hits'].get(k, 0) >= 10, f'{k} under-explored')
    engine.require(agg['hits'].get('big-table', 0) >= 2, 'long table missing')
