"""C09 - bivariate copula samples have uniform margins and the model's dependence.

E3 (environment-answer explorer): the two uniform draws of Bivariate.sample are owned by the harness.
 record : real generator, calls logged -> exact identity u = C^-1(c | v), second column == v, seed protocol
 script : the draws are answered with the k x k midpoint lattice -> deterministic margins / tau / joint-CDF bounds
 closure: real generator, n = 4000, DKW / Hoeffding bands at 1e-9
"""
import numpy as np

from mc import alphabets as A
from mc import engine, seams
from mc.lib import make_biv

PROPERTY = 'C09'
LEVEL = 'model_checking'
ENGINE = 'E3-environment-explorer'
TECHNIQUE = ('environment-answer enumeration: the two uniform draws of sample() are recorded or scripted with a complete '
             'k x k midpoint lattice for every (family, theta, seed form) of the alphabet; oracle = mpmath conditional '
             'inverse bracket + discretisation bounds on margins, tau-b and the joint CDF')
LEVEL_TEXT = ('for each (family, theta, seed form, n) the complete set of environment answers in the lattice alphabet is '
              'pushed through the real sampler and compared with the reference conditional inverse; the random source '
              'is fully owned, so each execution is deterministic and every one is checked. "All seeds" is covered by '
              'the exact identity with the recorded stream, not by enumeration.')
LEVEL_NOTE = ('trusted: numpy RandomState, mpmath h; bands: lattice discretisation (script) and DKW/Hoeffding at 1e-9 '
              '(closure); the library cdf used for the joint comparison is the one verified by C06')
RULE = ('family x theta alphabet x {record: seed in (None,0,RandomState(3)) x n in (1,2,40|200); script: k x k lattice of '
        '(v,c) answers; closure: n=4000 real draws x seeds; large: one seeded call of 20 037 | 70 001 rows per family x 2 thetas, every row against the inverse asked in blocks of 500}; + models obtained by fit on a reference pseudo-sample; '
        'non-trivial = every case; distinct = distinct (mode,family,theta,seed,n)')
ASSUMPTIONS = ['numpy legacy RandomState is a faithful U(0,1) source', 'mpmath 40-digit arithmetic']

DELTA = 1e-9
# deterministic discretisation bounds for the k x k midpoint lattice (calibrated: see DESIGN.md C09)
BAND_MARGIN = 2.0     # x 1/k
BAND_TAU = 0.03
BAND_JOINT = 0.03


def bounds(tier):
    return {'lattice_k': 48 if tier == 'quick' else 128, 'closure_n': 4000,
            'closure_seeds': 1 if tier == 'quick' else 4,
            'thetas': {k: len(v) for k, v in A.THETAS[tier].items()}}


def cases(tier, seed):
    out = []
    for fam, ths in A.THETAS[tier].items():
        for th in sorted(ths):
            if fam == 'gumbel' and th == 1.0:
                pass
            out.append(('script', fam, th, tier, 0))
            for s in range(1 if tier == 'quick' else 4):
                out.append(('closure', fam, th, tier, 1000 * seed + s))
            out.append(('record', fam, th, tier, 0))
        out.append(('fitted', fam, 0.0, tier, 0))
        out.append(('tau0', fam, 0.0, tier, 0))
        out.append(('reassigned', fam, 0.0, tier, 0))
        # one call for more rows than any plausible internal block (2^14, 10 000, ...): every row is still the conditional
        # inverse of ITS OWN pair of draws
        mids = sorted(A.THETAS[tier][fam])
        for th in (mids[len(mids) // 2], mids[-2]):
            out.append(('large', fam, th, tier, 0))
    return out


def _bracket_rows(r, ref, out, v, c, sig, case, fam, th, limit=None):
    idx = range(len(v)) if limit is None else np.linspace(0, len(v) - 1, limit).astype(int)
    for i in idx:
        u = out[i, 0]
        lo = float(ref.h(max(u - DELTA, 0.0), v[i]))
        hi = float(ref.h(min(u + DELTA, 1.0), v[i]))
        r.ev()
        if not (lo - 1e-12 <= c[i] <= hi + 1e-12):
            r.violation(f'{sig}:not-conditional-inverse', f'{fam} theta={th}: sample row u={u!r} for draws (v={v[i]!r}, '
                        f'c={c[i]!r}) is not C^-1(c|v): h(u-d,v)={lo!r}, h(u+d,v)={hi!r}', case=case)
            return False
    return True


def _shape_ok(r, out, n, sig, case, fam, th):
    out = np.asarray(out)
    if out.shape != (n, 2):
        r.violation(f'{sig}:shape', f'{fam} theta={th}: sample({n}) returned shape {out.shape}', case=case)
        return False
    if not np.all(np.isfinite(out)) or out.min() < 0 or out.max() > 1:
        r.violation(f'{sig}:range', f'{fam} theta={th}: sample({n}) has values outside [0,1] or non-finite: '
                    f'min={np.nanmin(out)!r} max={np.nanmax(out)!r}', case=case)
        return False
    return True


def _ecdf_joint(P, pts):
    return np.array([np.mean((P[:, 0] <= a) & (P[:, 1] <= b)) for a, b in pts])


def _stat_checks(r, cop, out, sig, case, fam, th, band_margin, band_tau, band_joint, mode, sub_idx=None, model_tau=None):
    from mc.ref.archimedean import Ref
    from mc.ref.kendall import tau_b
    n = len(out)
    grid = (np.arange(1, 100)) / 100.0
    dm = 0.0
    for col in (0, 1):
        e = np.searchsorted(np.sort(out[:, col]), grid, side='right') / n
        dm = max(dm, float(np.max(np.abs(e - grid))))
    r['extra'][f'max_{mode}_margin_dev_x1000'] = dm * 1000
    if dm > band_margin:
        r.violation(f'{sig}:{mode}:margin', f'{fam} theta={th}: a margin of the sample is {dm:.4f} from uniform '
                    f'(band {band_margin:.4f})', case=case)
    if sub_idx is not None:
        sub = out[sub_idx]          # a product sub-lattice (a strided 1-D subsample of a grid would be structured)
    else:
        sub = out if n <= 4096 else out[np.linspace(0, n - 1, 4096).astype(int)]
    t = tau_b(sub[:, 0], sub[:, 1])
    # the property compares with the MODEL's tau attribute; for parameterised models that is the tau of theta
    tm = float(Ref(fam, th).tau()) if model_tau is None else model_tau
    r['extra'][f'max_{mode}_tau_dev_x1000'] = abs(t - tm) * 1000
    if not abs(t - tm) <= band_tau:
        r.violation(f'{sig}:{mode}:tau', f'{fam} theta={th}: Kendall tau of the sample {t:.4f} vs model tau {tm:.4f} '
                    f'(band {band_tau})', case=case)
    gj = [0.0] + A.G11[2:-2] + [1.0]            # boundary rows included: C(u,0)=0, C(u,1)=u must hold inside a mixed batch too
    pts = np.array([(a, b) for a in gj for b in gj])
    ej = _ecdf_joint(out, pts)
    cj = np.asarray(cop.cumulative_distribution(pts.copy()), float)
    dj = float(np.max(np.abs(ej - cj)))
    r['extra'][f'max_{mode}_joint_dev_x1000'] = dj * 1000
    if not dj <= band_joint:
        i = int(np.argmax(np.abs(ej - cj)))
        r.violation(f'{sig}:{mode}:joint', f'{fam} theta={th}: empirical joint CDF at {pts[i].tolist()} is {ej[i]:.4f}, '
                    f'cumulative_distribution gives {cj[i]:.4f} (band {band_joint})', case=case)
    r.ev(3)


def run_case(case):
    from mc.ref.archimedean import Ref
    mode, fam, th, tier, s = case
    r = engine.new_result()
    sig = f'C09:{fam}'
    r.hit(f'family:{fam}')
    r.hit(f'mode:{mode}')
    r.nontriv()
    r.state(case)

    if mode == 'tau0':
        # a model at Kendall tau exactly 0 (fitted on such a table, or re-created from its dict): it either refuses to sample
        # or samples the independence copula - never anything else
        from copulas.bivariate.base import Bivariate
        from mc.ref.kendall import tau_b
        X0 = np.array([[0.2, 0.4], [0.4, 0.8], [0.6, 0.2], [0.8, 0.6]])
        models = []
        c0 = Bivariate(copula_type=fam, random_state=4)
        try:
            c0.fit(X0.copy())
            models.append(('fitted on a table with tau = 0', c0))
            try:
                c1 = Bivariate.from_dict(c0.to_dict())
                c1.set_random_state(4)
                models.append(('re-created from the dict of that fit', c1))
            except Exception:
                pass
        except Exception as e:
            r.outcome(f'{fam}:tau0-fit-refused:{type(e).__name__}')
        for how, cop in models:
            r.tr()
            try:
                out = np.asarray(cop.sample(3000), float)
            except Exception as e:
                r.outcome(f'{fam}:tau0-sample-refused:{type(e).__name__}')
                continue
            r.ev()
            okk = out.shape == (3000, 2) and np.all(np.isfinite(out)) and out.min() >= 0 and out.max() <= 1
            if okk:
                ks = max(np.max(np.abs(np.sort(out[:, j]) - (np.arange(3000) + 0.5) / 3000)) for j in (0, 1))
                tt = tau_b(out[:, 0], out[:, 1])
                okk = ks <= 0.06 and abs(tt) <= 0.06
            if not okk:
                r.violation(f'{sig}:tau0:sample', f'{fam} {how} (theta={cop.theta!r}, tau={cop.tau!r}): sample(3000) is not a sample '
                            f'of the independence copula (first rows {out[:2].tolist() if out.ndim == 2 else out[:2]!r})', case=case)
        r.hit('tau0')
        r['sample'] = {'mode': mode, 'family': fam}
        return r
    if mode == 'reassigned':
        # ONE object that has sampled and answered queries is given the thetas of the alphabet one after the other (forwards
        # and back) by plain attribute assignment: under the same seed it samples exactly what a fresh object of that theta
        # samples (nothing computed for an earlier theta survives)
        ths = sorted(A.THETAS[tier][fam])
        order = ths + ths[::-1][1:]
        cop = make_biv(fam, order[0], random_state=5)
        for step, t in enumerate(order):
            cop.theta = t
            cop.tau = float(Ref(fam, t).tau())
            fresh = make_biv(fam, t, random_state=5)
            cop.set_random_state(5)
            r.tr(2)
            r.ev()
            r.state((fam, 'reassigned', step, t))
            try:
                a = np.asarray(cop.sample(40), float)
                cop.partial_derivative(np.array([[0.3, 0.6]]))
                cop.probability_density(np.array([[0.3, 0.6]]))
            except Exception as e:
                a = e
            try:
                b = np.asarray(fresh.sample(40), float)
            except Exception as e:
                b = e
            if isinstance(a, Exception) or isinstance(b, Exception):
                if type(a) is not type(b):
                    r.violation(f'{sig}:reassigned-theta', f'{fam}: an object re-parameterised '
                                f'{" -> ".join(map(str, order[max(0, step - 2):step + 1]))}: sample '
                                f'{"raised " + type(a).__name__ if isinstance(a, Exception) else "succeeded"}, a fresh theta={t} '
                                f'object {"raised " + type(b).__name__ if isinstance(b, Exception) else "succeeded"}', case=case)
                    break
                continue
            if a.shape != b.shape or not np.allclose(a, b, rtol=0, atol=1e-9, equal_nan=True):
                i = int(np.argmax(np.abs(a - b).max(axis=1))) if a.shape == b.shape else 0
                r.violation(f'{sig}:reassigned-theta', f'{fam}: an object re-parameterised '
                            f'{" -> ".join(map(str, order[max(0, step - 2):step + 1]))} samples row {a[i].tolist() if a.ndim == 2 else a!r} '
                            f'under seed 5, a fresh theta={t} object {b[i].tolist() if b.ndim == 2 else b!r}', case=case)
                break
        r.hit('reassigned')
        r['sample'] = {'mode': mode, 'family': fam, 'thetas': len(order)}
        return r
    if mode == 'large':
        ref = Ref(fam, th)
        n = 20037 if tier == 'quick' else 70001
        cop = make_biv(fam, th, random_state=0)
        with seams.seam() as log:
            r.tr()
            out = cop.sample(n)
        dr = seams.draws(log)
        if not _shape_ok(r, out, n, sig, case, fam, th):
            return r
        out = np.asarray(out)
        if not (len(dr) == 2 and all(d[0] == 'uniform' and tuple(d[1]) == (0, 1, n) and not d[2] for d in dr)):
            r.hit('protocol-changed')
            r['sample'] = {'mode': mode, 'family': fam, 'theta': th, 'note': 'draw protocol changed'}
            return r
        v, c = np.asarray(dr[0][3]), np.asarray(dr[1][3])
        if not np.array_equal(out[:, 1], v):
            r.violation(f'{sig}:second-column', f'{fam} theta={th}: second column of sample({n}) is not the first uniform draw', case=case)
            return r
        # (a) 600 rows spread over the whole call against the mpmath conditional inverse
        if not _bracket_rows(r, ref, out, v, c, sig + ':large', case, fam, th, limit=600):
            return r
        # (b) EVERY row against the library's own inverse asked in blocks of 500 (validated against mpmath in C08 at that size)
        fresh = make_biv(fam, th)
        worst, at = 0.0, -1
        for i in range(0, n, 500):
            r.tr()
            blk = np.asarray(fresh.percent_point(c[i:i + 500].copy(), v[i:i + 500].copy()), float)
            d = np.abs(blk - out[i:i + 500, 0])
            r.ev(len(d))
            if d.size and not np.all(d <= 1e-9):
                j = int(np.argmax(~(d <= 1e-9)))
                worst, at = float(d[j]), i + j
                break
        if at >= 0:
            r.violation(f'{sig}:large:row-depends-on-batch', f'{fam} theta={th}: row {at} of sample({n}) has u={out[at, 0]!r}; the conditional '
                        f'inverse of its own draws (c={c[at]!r}, v={v[at]!r}) asked in a block of 500 is {worst!r} away', case=case)
        r.hit('large')
        r['sample'] = {'mode': mode, 'family': fam, 'theta': th, 'n': n}
        return r

    if mode == 'record':
        ref = Ref(fam, th)
        for seedform in ('none', 'int0', 'rs3'):
            for n in (1, 2, 40 if tier == 'quick' else 200):
                rs = {'none': None, 'int0': 0, 'rs3': np.random.RandomState(3)}[seedform]
                cop = make_biv(fam, th, random_state=rs)
                np.random.seed(77)
                g0 = np.random.get_state()
                with seams.seam() as log:
                    r.tr()
                    out = cop.sample(n)
                dr = seams.draws(log)
                if not _shape_ok(r, out, n, sig, case, fam, th):
                    return r
                ok_calls = len(dr) == 2 and all(d[0] == 'uniform' for d in dr) and \
                    all(tuple(d[1]) == (0, 1, n) and not d[2] for d in dr)
                if not ok_calls:
                    # the uniforms are drawn in another (possibly equally valid) way: the exact identity does not apply;
                    # the closure mode (real generator, DKW bands) still decides the distributional clauses
                    r.hit('protocol-changed')
                    r['sample'] = {'mode': mode, 'family': fam, 'theta': th, 'note': 'draw protocol changed'}
                    return r
                v, c = np.asarray(dr[0][3]), np.asarray(dr[1][3])
                if not np.array_equal(np.asarray(out)[:, 1], v):
                    r.violation(f'{sig}:second-column', f'{fam} theta={th}: second column of sample is not the first '
                                f'uniform draw', case=case)
                    return r
                # seed protocol: the draws are the first two draws of the model stream (or of the global one)
                exp = np.random.RandomState()
                if seedform == 'none':
                    exp.set_state(g0)
                elif seedform == 'int0':
                    exp = np.random.RandomState(0)
                else:
                    exp = np.random.RandomState(3)
                ev, ec = exp.uniform(0, 1, n), exp.uniform(0, 1, n)
                if not (np.array_equal(ev, v) and np.array_equal(ec, c)):
                    r.violation(f'{sig}:stream', f'{fam} theta={th}: draws of sample({n}) with seed form {seedform} are '
                                f'not the first two uniform vectors of the expected stream', case=case)
                if not _bracket_rows(r, ref, np.asarray(out), v, c, sig, case, fam, th):
                    return r
                r.state(('record', fam, th, seedform, n))
        r['sample'] = {'mode': mode, 'family': fam, 'theta': th, 'seed_forms': ['none', 'int0', 'rs3']}
        return r

    if mode == 'script':
        k = 48 if tier == 'quick' else 128
        m = A.midpoints(k)
        Vg, Cg = np.meshgrid(m, m, indexing='ij')
        answers = [Vg.ravel(), Cg.ravel()]
        n = k * k
        cop = make_biv(fam, th)
        it = iter(answers)
        used = []
        with seams.seam(script={'uniform': lambda lo, hi, size: (used.append(1), next(it))[1]}) as log:
            r.tr()
            try:
                out = np.asarray(cop.sample(n))
            except StopIteration:
                out = None
        if out is None or len(used) != 2:
            r.hit('protocol-changed')            # the sampler does not ask for exactly two uniform vectors: see closure mode
            r['sample'] = {'mode': mode, 'family': fam, 'theta': th, 'note': 'draw protocol changed'}
            return r
        if not _shape_ok(r, out, n, sig, case, fam, th):
            return r
        ref = Ref(fam, th)
        if not np.array_equal(out[:, 1], answers[0]):
            r.violation(f'{sig}:second-column', f'{fam} theta={th}: second column is not the scripted v', case=case)
            return r
        _bracket_rows(r, ref, out, answers[0], answers[1], sig, case, fam, th, limit=60)
        sub_idx = None
        if k > 64:
            step = k // 64
            ii = np.arange(0, k, step)
            sub_idx = (ii[:, None] * k + ii[None, :]).ravel()
        _stat_checks(r, cop, out, sig, case, fam, th, BAND_MARGIN / k, BAND_TAU, BAND_JOINT, 'script', sub_idx=sub_idx)
        r['sample'] = {'mode': mode, 'family': fam, 'theta': th, 'lattice': [k, k], 'first_rows': out[:2].tolist()}
        return r

    if mode == 'closure':
        n = 4000
        cop = make_biv(fam, th, random_state=int(s))
        r.tr()
        out = np.asarray(cop.sample(n))
        if not _shape_ok(r, out, n, sig, case, fam, th):
            return r
        _stat_checks(r, cop, out, sig, case, fam, th, 0.052, 0.15, 0.052, 'closure')
        r['sample'] = {'mode': mode, 'family': fam, 'theta': th, 'seed': int(s), 'n': n}
        return r

    # fitted: the model is obtained by fit() on a reference pseudo-sample, then its sample must follow ITS parameters
    from copulas.bivariate.base import Bivariate
    from mc.checks.c11 import theta_for
    from mc.ref import samplers
    reused = Bivariate(copula_type=fam, random_state=5)
    taus = (0.2, 0.5, 0.75) if fam != 'frank' else (-0.6, -0.2, 0.3, 0.7)
    for it, tau in enumerate(taus + taus[::-1][1:]):
        X = samplers.sample(fam, theta_for(fam, abs(tau)) * (1 if tau > 0 else -1), 400,
                            points=A.lattice(401, 2)[1:])
        # first pass: a fresh object per fit; second pass: ONE object re-fitted through the tau list (refit history)
        cop = Bivariate(copula_type=fam, random_state=5) if it < len(taus) else reused
        cop.fit(X)
        # a REFUSED re-fit (table with a value outside [0,1], quite different dependence) in between: whatever the model
        # reports as its tau afterwards must still be the dependence of what it samples
        Xbad = np.column_stack([X[:, 0], X[::-1, 1]])
        Xbad[7, it % 2] = 1.2
        r.tr()
        try:
            cop.fit(Xbad)
            r.violation(f'{sig}:fitted:invalid-table-accepted', f'{fam}: fit accepted a table with the value 1.2', case=case)
        except ValueError:
            r.hit('refused-refit-in-between')
        except Exception as e:
            r.violation(f'{sig}:fitted:refit-raises:{type(e).__name__}', f'{fam}: fit of an out-of-range table raised '
                        f'{type(e).__name__}: {e}', case=case)
        k = 32
        m = A.midpoints(k)
        Vg, Cg = np.meshgrid(m, m, indexing='ij')
        it = iter([Vg.ravel(), Cg.ravel()])
        used = []
        scripted = True
        with seams.seam(script={'uniform': lambda lo, hi, size: (used.append(1), next(it))[1]}):
            r.tr()
            try:
                out = np.asarray(cop.sample(k * k))
            except StopIteration:
                out = None
        thf = float(cop.theta)
        if out is None or len(used) != 2:
            # draw protocol changed: decide on a seeded real sample with DKW / Hoeffding bands instead
            r.hit('protocol-changed')
            cop.set_random_state(11)
            out = np.asarray(cop.sample(4000))
            if _shape_ok(r, out, 4000, sig, case, fam, thf):
                _stat_checks(r, cop, out, sig, case, fam, thf, 0.052, 0.15, 0.052, 'fitted', model_tau=float(cop.tau))
            r.state(('fitted', fam, tau))
            continue
        if not _shape_ok(r, out, k * k, sig, case, fam, thf):
            return r
        _bracket_rows(r, Ref(fam, thf), out, Vg.ravel(), Cg.ravel(), sig, case, fam, thf, limit=40)
        _stat_checks(r, cop, out, sig, case, fam, thf, BAND_MARGIN / k + 0.01, BAND_TAU + 0.01, BAND_JOINT + 0.01,
                     'fitted', model_tau=float(cop.tau))
        r.state(('fitted', fam, tau))
    r['sample'] = {'mode': mode, 'family': fam}
    return r


def finish(agg, tier):
    for fam in ('clayton', 'gumbel', 'frank'):
        engine.require(agg['hits'].get(f'family:{fam}', 0) >= 12, f'family {fam} under-explored')
    for m in ('record', 'script', 'closure', 'fitted', 'large'):
        engine.require(agg['hits'].get(f'mode:{m}', 0) >= 3, f'mode {m} missing')
