"""C17 - vine pair-copula data flow, likelihood and sampling are coherent.

E3 (model checking): for every fitted vine of the alphabet (whole fits d=2..5(6) x types x truncations, and every
complete structure reached by the layer-A tree-builder search of C16 for d<=4) the reference `vine_flow` recomputes,
from the structure labels only, every edge's inputs F(L|D), F(R|D), its pair copula (select_copula on those inputs),
its h-function outputs and the log-likelihood of probe rows; np.empty is owned through a poison alphabet; the random
draws of the row sampler are scripted with a complete lattice for every start node.
"""
import itertools
import warnings

import numpy as np

from mc import alphabets as A
from mc import engine, seams, tables
from mc.ref import archimedean_np as anp

PROPERTY = 'C17'
LEVEL = 'model_checking'
ENGINE = 'E3-environment-explorer'
ENGINES = ('E3-environment-explorer', 'E2-sequence-explorer')
TECHNIQUE = ('for every vine of the alphabet (whole fits + every complete structure of the C16 tree-builder search) a '
             'reference data-flow model built from structure labels only is run in lock-step with the real edges, '
             'likelihood and sampler; environment answers are enumerated: np.empty poison alphabet, scripted k x k lattice '
             'of the row sampler\'s uniform draws for every start node, repeated / round-tripped / re-fitted objects')
LEVEL_TEXT = ('every edge of every enumerated vine is compared with the reference flow (pair-copula choice, h-function outputs), '
              'every probe row\'s likelihood with the reference sum, under every poison; the two-column sampler is checked '
              'row by row on a complete lattice of its random draws. Tables outside the alphabet are not enumerated.')
LEVEL_NOTE = ('trusted: float64 generator-based reference (self-tested against mpmath), select_copula (pinned by C11), the '
              'fitted GaussianKDE marginals (C03)')
RULE = ('whole fits: d=2..5(6) x 7 designs (incl. the exact-zero-tau parity table) + coupled tables x 3 types x truncations {1,2,d-1}; layer-A complete structures for d=3,4; probe rows '
        '= 7 per vine; poisons {nan,0,0.731,-0.9}; sampler lattice 24x24 (thorough 64x64) x start nodes x {fresh, re-fitted}; '
        'distinct_nontrivial counts distinct (vine, edge), (vine, probe row) and (vine, start node, lattice point) comparisons; '
        '`states` counts distinct vines')
ASSUMPTIONS = ['h-function outputs equal to 0 or 1 are replaced by EPSILON / 1-EPSILON as documented', 'vine sampling clamps '
               'conditional quantiles to [EPSILON, 0.99] as documented']

EPS = A.EPS32
TYPES = ('center', 'direct', 'regular')
FAM = {0: 'clayton', 1: 'frank', 2: 'gumbel'}


def bounds(tier):
    return {'whole_fit_d': [2, 3, 4, 5] if tier == 'quick' else [2, 3, 4, 5, 6], 'designs': 7, 'probe_rows': 7,
            'sampler_lattice': 24 if tier == 'quick' else 64}


def cases(tier, seed):
    out = []
    for d in ((2, 3, 4, 5) if tier == 'quick' else (2, 3, 4, 5, 6)):
        for k in range(7):
            for vt in TYPES:
                out.append(('fit', d, k, vt, tier))
    for vt in TYPES:
        for d, n, noise in (COUPLED_QUICK if tier == 'quick' else COUPLED_THOROUGH):
            out.append(('fit', d, ('coupled', n, noise), vt, tier))
    for vt in TYPES:
        for d, n, noise in ((4, 240, 0.05), (5, 240, 0.1), (6, 240, 0.03)) + (() if tier == 'quick' else ((6, 240, 0.05), (5, 240, 0.03), (7, 240, 0.05))):
            out.append(('fit', d, ('bundle', n, noise), vt, tier))
    for vt in TYPES:
        for d in (3, 4):
            out.append(('layerA', d, 0, vt, tier))
    if tier != 'quick':
        # d = 5: all complete center and direct structures (the ~23 000 ordered regular d=5 states are covered
        # structurally by C16 only; their data flow is checked through the whole fits)
        for vt in ('center', 'direct'):
            for s0 in range(0, 3 ** 10, 6000):
                out.append(('layerA', 5, s0, vt, tier))
    for vt in TYPES:
        for k in (0, 1, 2):
            for hist in ('fresh', 'refit'):
                out.append(('sample2', k, hist, vt, tier))
    out.sort(key=lambda c: (c[0] != 'sample2', c[0] != 'layerA', -c[1] if isinstance(c[1], int) else 0, str(c[2])))
    return out


def zoo_attempt(f, *a):
    from mc import zoo
    out = zoo.attempt(f, *a)
    return out if isinstance(out, zoo.Raised) else float(out)


def famname(name):
    v = getattr(name, 'value', name)
    return FAM[int(v)]


def in_c07_range(fam, th):
    """|Kendall tau| <= 0.8: the range over which C07 states (and checks) the accuracy of density and h-function."""
    return {'clayton': 0 < th <= 8, 'gumbel': 1 <= th <= 5, 'frank': 0 < abs(th) <= 18.2}.get(fam, False)


def _own(fam, th):
    from copulas.bivariate import Bivariate
    c = Bivariate(copula_type=fam)
    c.theta = th
    return c


def raw_h(fam, th, a, b):
    """Independent float64 h-function inside the accuracy range of C07. Beyond it (e.g. Frank theta = 35 fitted to two
    columns with tau = 0.9, where the library's closed form is only good to a few per cent) C17 states a DATA FLOW, not an
    accuracy: there the reference is the pair copula's own partial_derivative applied to the reference-selected inputs."""
    if in_c07_range(fam, th):
        return np.asarray(anp.h(fam, th, a, b), float).copy()
    fam = fam.rstrip('!')
    with np.errstate(all='ignore'):
        return np.asarray(_own(fam, th).partial_derivative(np.column_stack([a, b])), float).copy()


def raw_logpdf(fam, th, a, b):
    with np.errstate(all='ignore'):
        if in_c07_range(fam, th):
            return np.log(anp.pdf(fam, th, a, b))
        fam = fam.rstrip('!')
        return np.log(np.asarray(_own(fam, th).probability_density(np.column_stack([a, b])), float))


def hfun(fam, th, a, b):
    """Reference h-function with the documented boundary correction (values at or rounded beyond 0 / 1 are moved inside)."""
    out = raw_h(fam, th, a, b)
    out[out <= 0] = EPS
    out[out >= 1] = 1 - EPS
    return out


def h_matches(stored, ref, tol):
    """Stored pseudo-observations agree with the reference h: within tol of it, or - where the reference sits within tol of
    a boundary, so that two correct float implementations may disagree on whether the value IS the boundary - within tol of
    the corrected value EPSILON / 1 - EPSILON."""
    d = np.abs(stored - ref)
    near0 = (ref <= EPS + tol) & ((np.abs(stored - EPS) <= tol) | (stored <= tol))
    near1 = (ref >= 1 - EPS - tol) & ((np.abs(stored - (1 - EPS)) <= tol) | (stored >= 1 - tol))
    return bool(np.all((d <= tol) | near0 | near1))


def flow_check(r, trees, U0, tag, case, sigp):
    """Reference data flow from the structure labels. Returns the list of (edge, fam, theta, L, R, D) if coherent."""
    from copulas.bivariate import select_copula
    F = {(j, frozenset()): U0[:, j] for j in range(U0.shape[1])}
    ok = True
    for k, t in enumerate(trees, start=1):
        for e in t.edges:
            D = frozenset(int(x) for x in e.D)
            L, R = int(e.L), int(e.R)
            r.ev()
            r.nontriv()
            r.hit('h-ref:independent' if in_c07_range(famname(e.name), e.theta) else 'h-ref:own-closed-form(beyond C07 range)')
            if (L, D) not in F or (R, D) not in F:
                r.violation(f'{sigp}:flow:inputs-unavailable', f'{tag}: edge ({L},{R}|{sorted(D)}) of tree {k} has no inputs '
                            f'F({L}|D), F({R}|D) produced by the previous tree', case=case)
                return False
            a, b = F[(L, D)], F[(R, D)]
            r.tr()
            sel = select_copula(np.column_stack([a, b]))
            fam = famname(e.name)
            sfam = type(sel).__name__.lower()
            if not (sfam == fam and abs(sel.theta - e.theta) <= 1e-9 * max(1.0, abs(e.theta))):
                # "the edge's two input columns" carry no order: Kendall's tau of (b, a) can differ from that of (a, b) by one
                # ulp, which Frank's tau -> theta solver amplifies to 2e-5 relative near tau = 0 (direct vines hand the
                # columns over as (R, L))
                r.tr()
                sel = select_copula(np.column_stack([b, a]))
                sfam = type(sel).__name__.lower()
            if not (sfam == fam and abs(sel.theta - e.theta) <= 1e-9 * max(1.0, abs(e.theta))):
                r.violation(f'{sigp}:flow:pair-copula:level{"1" if k == 1 else "2" if k == 2 else ">=3"}',
                            f'{tag}: edge ({L},{R}|{sorted(D)}) of tree {k} carries {fam}({e.theta!r}) but select_copula on its '
                            f'inputs F({L}|D), F({R}|D) gives {sfam}({sel.theta!r})', case=case)
                ok = False
            hl, hr = hfun(fam, e.theta, a, b), hfun(fam, e.theta, b, a)
            Ue = np.asarray(e.U, float)
            # The next tree is fed with the edge's OWN stored pseudo-observations (looked up by structure labels), which are
            # compared with the reference h-functions right below to 1e-9. Propagating the reference values instead would make
            # the pair-copula comparison of tied (integer-valued) tables depend on 1-ulp differences between two correct
            # h implementations, because Kendall's tau of tied data is not continuous in its inputs.
            ok_shape = Ue.shape == (2, len(a))
            F[(L, D | {R})] = Ue[0] if ok_shape else hl
            F[(R, D | {L})] = Ue[1] if ok_shape else hr
            # Frank's closed-form h loses ~1e-9 absolute for |theta| >= 8 (see C07), hence the wider tolerance there
            tol_h = 1e-7 if (fam == 'frank' and abs(e.theta) >= 8) else 1e-9
            # ... and rows with an argument within 1e-6 of 0 or 1 lie outside the square on which C07 states the accuracy of h
            # (Gumbel theta = 1.4 at (1 - 1.2e-9, 1 - 1.5e-9): two correct float64 evaluations differ by 2e-9)
            edge_rows = (np.minimum(a, b) < 1e-6) | (np.maximum(a, b) > 1 - 1e-6)
            tol_h = np.where(edge_rows, 1e-6, tol_h)
            if Ue.shape != (2, len(a)) or not (h_matches(Ue[0], hl, tol_h) and h_matches(Ue[1], hr, tol_h)):
                swapped = Ue.shape == (2, len(a)) and h_matches(Ue[0], hr, tol_h) and h_matches(Ue[1], hl, tol_h)
                r.violation(f'{sigp}:flow:h-outputs{":swapped" if swapped else ""}',
                            f'{tag}: pseudo-observations of edge ({L},{R}|{sorted(D)}) of tree {k} are not '
                            f'(h(F(L|D)|F(R|D)), h(F(R|D)|F(L|D)))', case=case)
                ok = False
            elif not (Ue.min() > 0 and Ue.max() < 1):
                r.violation(f'{sigp}:flow:h-outputs-not-inside-(0,1)', f'{tag}: edge ({L},{R}|{sorted(D)}) has pseudo-'
                            f'observations outside (0,1): [{Ue.min()!r},{Ue.max()!r}]', case=case)
                ok = False
            if not ok:
                return False
    return True


def ref_loglik(trees, row):
    F = {(j, frozenset()): np.array([row[j]]) for j in range(len(row))}
    tot = 0.0
    for t in trees:
        for e in t.edges:
            D = frozenset(int(x) for x in e.D)
            L, R = int(e.L), int(e.R)
            a, b = F[(L, D)], F[(R, D)]
            fam = famname(e.name)
            # Arguments within 1e-6 of the boundary (far outside the square on which C07 states the accuracy of h and density)
            # make the NEXT edge's density depend on the *relative* accuracy of a value like 1e-14, which no float64 closed
            # form delivers (Frank theta=-0.02 at u=1.3e-14: two correct implementations differ by 20 % relative, 3e-15
            # absolute). The likelihood clause is about the recursion - which cells feed which edge - so such edges use the
            # pair copula's own closed forms as reference ingredients.
            interior = 1e-6 <= min(a[0], b[0]) and max(a[0], b[0]) <= 1 - 1e-6
            famx = fam if interior else fam + '!'
            tot += float(raw_logpdf(famx, e.theta, a, b)[0])
            F[(L, D | {R})] = raw_h(famx, e.theta, a, b)
            F[(R, D | {L})] = raw_h(famx, e.theta, b, a)
    return tot


def probe_rows(d):
    rows = [np.full(d, 0.5), np.linspace(0.2, 0.8, d), np.linspace(0.85, 0.15, d),
            np.array([0.3 + 0.4 * ((3 * j) % 5) / 5 for j in range(d)]),
            np.array([0.01 if j % 2 else 0.99 for j in range(d)]), np.full(d, 0.97), np.full(d, 0.04),
            np.array([0.05 if j % 2 else 0.95 for j in range(d)]), np.array([0.1 if j % 2 else 0.9 for j in range(d)])]
    return rows


def likelihood_check(r, v, trees, tag, case, sigp, with_roundtrip=True):
    from copulas.multivariate import VineCopula
    d = len(trees[0].edges) + 1
    v2 = None
    if with_roundtrip:
        try:
            v2 = VineCopula.from_dict(v.to_dict())
        except Exception as e:
            r.violation(f'{sigp}:roundtrip-raises:{type(e).__name__}', f'{tag}: from_dict(to_dict()) raised {e}', case=case)
    for row in probe_rows(d):
        ref = ref_loglik(trees, row)
        vals = {}
        for poison in ('none', float('nan'), 0.0, 0.731, -0.9):
            try:
                if poison == 'none':
                    vals['plain'] = float(v.get_likelihood(row[None, :].copy()))
                    vals['repeat'] = float(v.get_likelihood(row[None, :].copy()))
                    if v2 is not None:
                        vals['after-roundtrip'] = float(v2.get_likelihood(row[None, :].copy()))
                    ro_ = row[None, :].copy()
                    ro_.flags.writeable = False
                    vals['read-only array'] = float(v.get_likelihood(ro_))
                else:
                    with seams.seam(poison=poison):
                        vals[f'np.empty={poison!r}'] = float(v.get_likelihood(row[None, :].copy()))
            except Exception as e:
                r.violation(f'{sigp}:likelihood-raises:{type(e).__name__}', f'{tag}: get_likelihood({row.tolist()}) raised '
                            f'{type(e).__name__}: {e}', case=case)
                return
            r.tr()
        r.ev()
        r.nontriv()
        base = vals['plain']
        for kname, val in vals.items():
            same = (val == base) or (np.isnan(val) and np.isnan(base)) or abs(val - base) <= 1e-12 * max(1, abs(base))
            if not same:
                r.violation(f'{sigp}:likelihood-not-deterministic', f'{tag}: get_likelihood({row.tolist()}) = {base!r} but '
                            f'{val!r} [{kname}]', case=case)
                return
        fin = np.isfinite(ref)
        hard = any((famname(e.name) == 'frank' and abs(e.theta) >= 8) or not in_c07_range(famname(e.name), e.theta)
                   for t in trees for e in t.edges)
        # Frank's closed forms are only good to ~1e-7 relative for |theta| >= 8 (C07); beyond |tau| = 0.8 (any family) an h-value
        # next to 0 or 1 is propagated with few significant digits, and the next tree's density inherits that
        tol_l = 1e-6 if hard else 1e-9
        if (fin and not abs(base - ref) <= tol_l * max(1.0, abs(ref))) or (not fin and np.isfinite(base) and abs(base) < 1e300):
            r.violation(f'{sigp}:likelihood-value', f'{tag}: get_likelihood({row.tolist()}) = {base!r}, the sum of log pair-copula '
                        f'densities at the h-propagated arguments is {ref!r}', case=case)
            return


def run_case(case):
    warnings.simplefilter('ignore')
    r = engine.new_result()
    kind = case[0]
    if kind == 'fit':
        return _fit(r, case)
    if kind == 'layerA':
        return _layer_a(r, case)
    return _sample2(r, case)


# (d, n, noise) of the tightly-coupled tables; between them they drive all four 0/1 corrections (left/right output equal to 0,
# equal to 1, and rounded marginally ABOVE 1 by the Gumbel h-function) in first-, second- and third-tree edges
COUPLED_QUICK = [(3, 120, 0.02), (3, 240, 0.05), (3, 400, 0.05), (3, 400, 0.1), (4, 240, 0.05), (4, 400, 0.05)]
COUPLED_THOROUGH = [(d, n, noise) for d in (3, 4, 5) for n in (120, 240, 400) for noise in (0.1, 0.05, 0.02)]


def coupled_table(d, n=240, noise=0.05):
    """Columns 0 and d-1 are tightly coupled (common factor + small noise) except for three rows far off the diagonal, so
    that first-tree conditional CDFs get as small as 1e-17 (or round to 1) and second-tree h-function values underflow to
    exactly 0: the documented 0/1 correction has to act on BOTH h-function outputs and on every tree."""
    import pandas as pd
    from scipy import stats
    P = A.lattice(n + 1, d + 1)[1:]
    Z = stats.norm.ppf(P)
    z = Z[:, 0]
    a = z + noise * Z[:, 1]
    b = z + noise * Z[:, 2]
    a[:3] = [1.0, 1.5, -1.2]
    b[:3] = [-2.5, -2.2, 2.4]
    cols = {'c0': a}
    for j in range(1, d - 1):
        cols[f'c{j}'] = 0.5 * z + Z[:, 2 + j]
    cols[f'c{d - 1}'] = b
    return pd.DataFrame(cols)


def bundle_table(d, n=240, noise=0.05):
    """ALL columns share one factor (pairwise Kendall tau ~0.95): every first-tree edge is strongly dependent, so a probe row far
    from the diagonal has a log-likelihood of several -100 per edge - the SUM over a tree's edges is far below log(float min)
    while every single pair density is an ordinary float."""
    import pandas as pd
    from scipy import stats
    Z = stats.norm.ppf(A.lattice(n + 1, d + 1)[1:])
    return pd.DataFrame({f'b{j}': Z[:, 0] + noise * Z[:, 1 + j] for j in range(d)})


def _fit(r, case):
    from copulas.multivariate import VineCopula
    from mc.checks.c16 import layer_b_table
    _, d, k, vt, tier = case
    if isinstance(k, tuple) and k[0] == 'bundle':
        df, dname = bundle_table(d, k[1], k[2]), f'bundle(n={k[1]},noise={k[2]})'
    elif isinstance(k, tuple):
        df, dname = coupled_table(d, k[1], k[2]), f'coupled(n={k[1]},noise={k[2]})'
    else:
        df, dname = layer_b_table(d, k)
    for t in sorted({1, 2, max(1, d - 1)}):
        tag = f'VineCopula({vt}).fit(table d={d} design {dname}, truncated={t})'
        sigp = f'C17:{vt}'
        v = VineCopula(vt, random_state=3)
        r.tr()
        try:
            v.fit(df.copy(), truncated=t)
        except Exception as e:
            r.violation(f'{sigp}:fit-raises:{type(e).__name__}', f'{tag}: raised {type(e).__name__}: {e}', case=case)
            continue
        r.state((d, dname, vt, t))
        U0 = np.asarray(v.u_matrix, float)
        if flow_check(r, v.trees, U0, tag, case, sigp):
            r.hit('flow-ok')
            likelihood_check(r, v, v.trees, tag, case, sigp)
        # sampling: schema, no NaN; and using the sampler must not change what get_likelihood answers
        probe = probe_rows(d)[1][None, :]
        before = zoo_attempt(v.get_likelihood, probe.copy())
        for n in (0, 1, 4):
            try:
                s = v.sample(n)
            except Exception as e:
                r.violation(f'{sigp}:sample-raises:{type(e).__name__}', f'{tag}: sample({n}) raised {type(e).__name__}: {e}',
                            case=case)
                break
            r.tr()
            r.ev()
            if list(s.columns) != list(df.columns) or len(s) != n or s.isna().any().any():
                r.violation(f'{sigp}:sample-schema', f'{tag}: sample({n}) has {len(s)} rows, columns {list(s.columns)}, '
                            f'NaN={bool(s.isna().any().any())}', case=case)
                break
        after = zoo_attempt(v.get_likelihood, probe.copy())
        if repr(before) != repr(after):
            r.violation(f'{sigp}:likelihood-changed-by-sampling', f'{tag}: get_likelihood({probe[0].tolist()}) was {before!r} '
                        f'before sample() and is {after!r} afterwards', case=case)
    r.hit(f'fit:d={d}')
    r['sample'] = {'kind': 'whole fit', 'd': d, 'design': dname, 'type': vt, 'truncations': sorted({1, 2, max(1, d - 1)})}
    return r


def _layer_a(r, case):
    """Every complete ordered structure the tree builder reaches for this d under a reduced tau alphabet."""
    from copulas.multivariate import VineCopula
    from copulas.multivariate.tree import get_tree
    from mc.checks import c16
    _, d, s0, vt, tier = case
    if not c16.layer_a_interface_ok():
        r.hit('layerA')
        r['sample'] = {'kind': 'layer-A structures', 'note': 'internal interface unavailable'}
        return r
    c16.install_memo()
    U = c16.make_U(d)
    pairs = list(itertools.combinations(range(d), 2))
    first = {}
    if d <= 4:
        level1 = ([0.08 + 0.11 * p for p in perm] for perm in itertools.permutations(range(len(pairs))))
    else:
        # d = 5: the 3-level tie assignments of the 10 pairs, one chunk of 6000 per case
        level1 = itertools.islice(itertools.product(c16.LEVELS3, repeat=len(pairs)), s0, s0 + 6000)
    for vals in level1:
        tau = c16.tau_matrix(pairs, list(vals), d)
        T1 = get_tree(vt)
        T1.fit(0, d, tau.copy(), U)
        first.setdefault(c16.okey([T1]), T1)
    frontier = [[t] for t in first.values()]
    for level in range(1, d - 1):
        nxt = {}
        ne = d - level
        prs = list(itertools.combinations(range(ne), 2))
        for trees in frontier:
            for vals in itertools.product(c16.LEVELS3, repeat=len(prs)):
                tau = np.zeros((ne, ne))
                for (i, j), val in zip(prs, vals):
                    tau[i, j] = tau[j, i] = val
                for e in trees[-1].edges:
                    e.neighbors = []
                trees[-1]._get_constraints()
                T = get_tree(vt)
                T.fit(level, ne, tau.copy(), trees[-1])
                nxt.setdefault(c16.okey(trees + [T]), trees + [T])
        frontier = list(nxt.values())
    for trees in frontier:
        key = c16.okey(trees)
        tag = f'layer-A structure d={d} {vt} {key}'
        sigp = f'C17:{vt}'
        r.state((d, vt, key))
        if flow_check(r, trees, U, tag, case, sigp):
            v = VineCopula(vt)
            v.trees = trees
            v.fitted = True
            likelihood_check(r, v, trees, tag, case, sigp, with_roundtrip=False)
    r.add(f'layerA_structures_d{d}_{vt}', len(frontier))
    r.hit('layerA')
    r['sample'] = {'kind': 'layer-A structures', 'd': d, 'type': vt, 'structures': len(frontier)}
    return r


def _sample2(r, case):
    """Two-column vines: the row sampler on a complete lattice of its uniform draws, for each start node."""
    from copulas.multivariate import VineCopula
    from mc.ref.kendall import tau_b
    _, k, hist, vt, tier = case
    design = ('equi+', 'equi-', 'ar1')[k]
    df, _ = tables.gaussian_copula_table((2, design, 'rotated', (), 60, 'str'))
    v = VineCopula(vt)
    if hist == 'refit':
        other, _ = tables.gaussian_copula_table((3, 'mixed', 'normal', (), 40, 'plain'))
        v.fit(other)
        v.sample(1)
    v.fit(df.copy())
    tag = f'VineCopula({vt}) fitted on a 2-column table ({design})' + (' after a fit on another table' if hist == 'refit' else '')
    sigp = f'C17:{vt}'
    e = v.trees[0].edges[0]
    fam, th = famname(e.name), float(e.theta)
    # the marginals the sample must reproduce: fresh KDEs of the LAST training table (not the model's own list)
    from copulas.univariate import GaussianKDE
    ref_unis = []
    for c in df.columns:
        ku = GaussianKDE()
        ku.fit(df[c])
        ref_unis.append(ku)
    kk = 24 if tier == 'quick' else 64
    m = A.midpoints(kk)
    cols = list(df.columns)
    from mc.ref.archimedean import Ref
    tau_model = float(Ref(fam, th).tau())
    for start in (0, 1):
        G1, G2 = np.meshgrid(m, m, indexing='ij')
        pts = np.column_stack([G1.ravel(), G2.ravel()])          # (u_first, u_second)
        n = len(pts)
        it = iter(range(n))
        state = {'i': -1}

        def uni(lo, hi, size):
            state['i'] = next(it)
            u = np.empty(2)
            u[start] = pts[state['i'], 0]
            u[1 - start] = pts[state['i'], 1]
            return u
        ri = []
        with seams.seam(script={'uniform': uni, 'randint': lambda lo, hi=None, size=None: (ri.append(1), start)[1]}) as log:
            r.tr()
            try:
                out = v.sample(n)
            except StopIteration:
                out = None
            except Exception as ex:
                r.violation(f'{sigp}:sample-raises:{type(ex).__name__}', f'{tag}: sample raised {type(ex).__name__}: {ex}', case=case)
                return r
        if out is None or state['i'] != n - 1 or len(ri) != n:
            # the row sampler draws its randomness differently: decide the distributional clause on a seeded real sample
            r.hit('protocol-changed')
            v.set_random_state(17)
            out = v.sample(1500)
            O = out.to_numpy(dtype=float)
            if list(out.columns) != cols or O.shape != (1500, 2) or np.isnan(O).any():
                r.violation(f'{sigp}:sample-schema', f'{tag}: sample(1500) has shape {O.shape}', case=case)
                return r
            worst = 0.0
            for j in (0, 1):
                Fj = np.sort(np.asarray(ref_unis[j].cumulative_distribution(O[:, j].copy()), float))
                worst = max(worst, np.max(np.arange(1, 1501) / 1500 - Fj), np.max(Fj - np.arange(0, 1500) / 1500))
            tt = tau_b(O[:, 0], O[:, 1])
            if worst > 3.27 / np.sqrt(1500) + 0.02 or abs(tt - tau_model) > 0.15:
                r.violation(f'{sigp}:sample2:closure', f'{tag}: seeded sample of 1500 rows: marginal KS {worst:.3f}, Kendall tau '
                            f'{tt:.3f} vs pair-copula tau {tau_model:.3f}', case=case)
            break
        O = out.to_numpy(dtype=float)
        if list(out.columns) != cols or O.shape != (n, 2) or np.isnan(O).any():
            r.violation(f'{sigp}:sample-schema', f'{tag}: sample({n}) has shape {O.shape}, columns {list(out.columns)}', case=case)
            return r
        first, second = start, 1 - start
        # reference: x_first = ppf_first(u_first); x_second = ppf_second(clamp(C^-1(u_second | u_first)))
        x1 = np.asarray(ref_unis[first].percent_point(pts[:, 0].copy()), float)
        r.ev(n)
        r.nontriv(n)
        if not np.allclose(O[:, first], x1, rtol=1e-9, atol=1e-9 * (np.abs(x1).max() + 1)):
            i = int(np.argmax(np.abs(O[:, first] - x1)))
            r.violation(f'{sigp}:sample2:first-variable', f'{tag}, start node {start}: row {i} has x_first={O[i, first]!r}, the '
                        f'fitted marginal quantile of u_first={pts[i, 0]!r} is {x1[i]!r}', case=case)
            return r
        w = np.asarray(ref_unis[second].cumulative_distribution(O[:, second].copy()), float)   # = clamp(C^-1(u2|u1))
        hw = anp.h(fam, th, np.clip(w, 1e-12, 1 - 1e-12), pts[:, 0])
        clamped = (w <= 2 * EPS) | (w >= 0.99 - 1e-6)
        bad = ~clamped & ~(np.abs(hw - pts[:, 1]) <= 1e-5)
        r['extra']['max_sample2_h_residual_e6'] = float(np.max(np.abs(hw - pts[:, 1])[~clamped]) * 1e6) if (~clamped).any() else 0.0
        if bad.any():
            i = int(np.nonzero(bad)[0][0])
            r.violation(f'{sigp}:sample2:conditional-inverse', f'{tag}, start node {start}: row {i} (u_first={pts[i, 0]!r}, '
                        f'u_second={pts[i, 1]!r}) has F_second(x_second)={w[i]!r} with h(.|u_first)={hw[i]!r} != u_second',
                        case=case)
            return r
        # marginals and dependence of the output point set
        worst = 0.0
        for j in (0, 1):
            Fj = np.sort(np.asarray(ref_unis[j].cumulative_distribution(O[:, j].copy()), float))
            ks = max(np.max(np.arange(1, n + 1) / n - Fj), np.max(Fj - np.arange(0, n) / n))
            worst = max(worst, ks)
        r['extra']['max_sample2_ks_x1000'] = worst * 1000
        if worst > 0.03 + 1.0 / kk + 0.01:
            r.violation(f'{sigp}:sample2:marginals', f'{tag}, start node {start}: a sampled column is {worst:.3f} (KS) from its '
                        f'fitted marginal', case=case)
        tt = tau_b(O[:, 0], O[:, 1])
        r['extra']['max_sample2_tau_dev_x1000'] = abs(tt - tau_model) * 1000
        if abs(tt - tau_model) > 0.03 + 1.0 / kk:
            r.violation(f'{sigp}:sample2:tau', f'{tag}, start node {start}: Kendall tau of the sample {tt:.3f} vs tau of the '
                        f'selected {fam} copula {tau_model:.3f}', case=case)
        r.state((k, hist, vt, start))
    r.hit('sample2')
    r['sample'] = {'kind': 'two-column sampler', 'design': design, 'history': hist, 'type': vt, 'lattice': [kk, kk],
                   'pair_copula': [fam, th]}
    return r


def finish(agg, tier):
    for k in ('flow-ok', 'layerA', 'sample2', 'fit:d=2', 'fit:d=5'):
        engine.require(agg['hits'].get(k, 0) >= 3, f'{k} under-explored')
