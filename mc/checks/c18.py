"""C18 - vectorised root finders return a bracketed root for every lane.

E1: lane alphabet (function family x slope x bracket x root position, all with exactly known roots) x vector
compositions (alone, all ordered pairs of a core, the full vector, tiled/rotated vectors, scalar input) x
{bisect, chandrupatla}; invalid brackets alone and embedded at every position of a valid vector.
"""
import itertools

import warnings

import numpy as np

from mc import engine

PROPERTY = 'C18'
LEVEL = 'exploration'
ENGINE = 'E1-product-explorer'
TECHNIQUE = ('bounded-exhaustive enumeration of a 700-lane alphabet of monotone functions with exactly known roots x vector '
             'compositions (every lane alone, every ordered pair of a 60-lane core, full vector, tiled rotations, scalar) for '
             'both solvers; zero-width brackets, plateaus of roots, lanes of huge magnitude and lanes with tiny function values (1e-165 .. 1e-200) next to every core lane; invalid '
             'brackets at every position of a valid vector')
LEVEL_TEXT = ('every lane and every enumerated vector composition is solved by the real solvers and each lane result is '
              'compared with its known root and with its solo result; functions outside the generated family are not '
              'enumerated: exploration.')
LEVEL_NOTE = 'trusted: numpy elementwise arithmetic; roots are known by construction (no reference solver involved)'
RULE = ('lanes = {linear, cubic-flat, tanh, expm1, arctan} x slope {1e-6,1e-3,1,1e3,1e6} x bracket {[0,1],[-5,5],[-1e3,1e3],'
        '[2,2.5]} x root position {0,1e-9,.1,.5,.731,1-1e-9,1}; compositions as in TECHNIQUE; non-trivial = lane whose root '
        'is strictly inside its bracket; distinct = distinct (solver, composition, lane)')
ASSUMPTIONS = ['python assertions are enabled (the solvers reject invalid brackets with assert)']

FAMS = ('linear', 'cubic', 'tanh', 'expm1', 'arctan')
SLOPES = (1e-6, 1e-3, 1.0, 1e3, 1e6)
BRACKETS = ((0.0, 1.0), (-5.0, 5.0), (-1e3, 1e3), (2.0, 2.5))
POS = (0.0, 1e-9, 0.1, 0.5, 0.731, 1 - 1e-9, 1.0)
LANES = [(f, s, b, p) for f in FAMS for s in SLOPES for b in BRACKETS for p in POS]


# zero-width brackets sitting exactly on a root (families whose formula does not divide by the bracket width)
ZERO_WIDTH = [('linear', 1.0, (0.3, 0.3), 0.0), ('cubic', 1e3, (-2.0, -2.0), 0.0), ('arctan', 1e-6, (5.0, 5.0), 0.0)]


# lanes whose bracket (and root) are 9 - 12 orders of magnitude larger than those of the core lanes
HUGE_LANES = [('linear', 1.0, (0.0, 4e12), 0.731), ('cubic', 1e-30, (-1e9, 3e9), 0.5), ('arctan', 1.0, (1e10, 2e10), 0.1)]


# lanes whose function VALUES are tiny (|f| ~ 1e-165 .. 1e-200 on the whole bracket: the product of two of them underflows to 0,
# their signs and ratios are ordinary) - still continuous, non-decreasing, with a sign change inside the bracket
TINY_LANES = [('linear', 1e-170, (0.0, 1.0), 0.731), ('linear', 1e-200, (-5.0, 5.0), 0.1), ('arctan', 1e-170, (-1e3, 1e3), 0.5),
              ('tanh', 1e-165, (2.0, 2.5), 0.5), ('expm1', 1e-180, (0.0, 1.0), 0.3)]


# lanes with a PLATEAU of roots (a dead zone around `root`): the function is 0 on the whole bracket, end points included
# ('plateau-all'), or on the middle 40 % of it ('plateau-part'); any point of the bracket where f is exactly 0 is a root
FAMS_ALL = FAMS + ('plateau-all', 'plateau-part')
PLATEAU = [('plateau-all', 1.0, (0.0, 1.0), 0.5), ('plateau-all', 1e6, (-5.0, 5.0), 0.1), ('plateau-all', 1e-6, (2.0, 2.5), 1.0),
           ('plateau-part', 1.0, (0.0, 1.0), 0.5), ('plateau-part', 1e3, (-1e3, 1e3), 0.731)]


def lane_arrays(lanes):
    fam = np.array([FAMS_ALL.index(l[0]) for l in lanes])
    s = np.array([l[1] for l in lanes])
    a = np.array([l[2][0] for l in lanes])
    b = np.array([l[2][1] for l in lanes])
    p = np.array([l[3] for l in lanes])
    root = np.where(p == 1.0, b, np.where(p == 0.0, a, a + p * (b - a)))
    w = (b - a)
    return fam, s, a, b, root, w


def make_f(lanes):
    fam, s, a, b, root, w = lane_arrays(lanes)

    def f(x):
        x = np.asarray(x, float)
        t = (x - root)
        with np.errstate(all='ignore'):
            vals = [s * t, s * t ** 3, s * np.tanh(t / (w / 10)), s * np.expm1(t / (w / 10)), s * np.arctan(t),
                    s * (t - np.clip(t, -2 * w, 2 * w)), s * (t - np.clip(t, -0.2 * w, 0.2 * w))]
        return np.choose(fam, vals)
    return f, a, b, root, w


def core_lanes():
    """60 lanes: every family x slope in (1e-6,1,1e6) x (bracket, position) chosen to mix widths and end roots."""
    combos = [(BRACKETS[0], 0.5), (BRACKETS[2], 0.731), (BRACKETS[3], 1.0), (BRACKETS[1], 0.0)]
    return [(f, s, b, p) for f in FAMS for s in (1e-6, 1.0, 1e6) for (b, p) in combos]


def bounds(tier):
    return {'lanes': len(LANES), 'core_pairs': 60 * 60 if tier == 'quick' else 'all 700x700 ordered pairs in blocks',
            'tiled_lengths': [1, 2, 3, 10, 100, 1000]}


def cases(tier, seed):
    out = [('solo', k, min(k + 50, len(LANES))) for k in range(0, len(LANES), 50)]
    out.append(('full',))
    core = core_lanes()
    if tier == 'quick':
        for i in range(0, len(core), 6):
            out.append(('pairs', 'core', i, i + 6))
    else:
        for i in range(0, len(LANES), 10):
            out.append(('pairs', 'all', i, i + 10))
    for rot in range(7):
        out.append(('tiled', rot))
    out.append(('invalid',))
    out.append(('scalar',))
    out.append(('dtypes',))
    out.append(('zero-width',))
    out.append(('magnitudes',))
    out.append(('tiny-values',))
    return out


def solve(solver, lanes, scalar=False):
    from copulas.optimize import bisect, chandrupatla
    f, a, b, root, w = make_f(lanes)
    if solver == 'bisect':
        return np.asarray(bisect(f, a.copy(), b.copy()), float), (a, b, root, w)
    if scalar:
        return np.asarray(chandrupatla(lambda x: f(np.array([x]))[0], float(a[0]), float(b[0]))), (a, b, root, w)
    return np.asarray(chandrupatla(f, a.copy(), b.copy()), float), (a, b, root, w)


def lane_ok(solver, x, lanes, meta):
    """Boolean mask: result inside the bracket and within the solver's tolerance of the known root."""
    a, b, root, w = meta
    f = make_f(lanes)[0]
    inside = (x >= a) & (x <= b)
    if solver == 'bisect':
        near = np.abs(x - root) <= 1e-8 + 4 * np.finfo(float).eps * np.abs(root)      # (1e-8 in x, or the float spacing at x)
    else:
        with np.errstate(all='ignore'):
            near = (np.abs(x - root) <= 1e-9 * w) | (f(x) == 0)
    plateau = np.array([l[0].startswith('plateau') for l in lanes])
    if plateau.any():
        with np.errstate(all='ignore'):
            near = np.where(plateau, f(x) == 0, near)
    return inside & near


def run_case(case):
    r = engine.new_result()
    kind = case[0]

    def check(solver, lanes, tagfn, scalar=False):
        r.tr()
        try:
            x, meta = solve(solver, lanes, scalar)
        except Exception as e:
            r.violation(f'C18:{solver}:raises:{type(e).__name__}', f'{solver} raised {type(e).__name__}: {e} on a valid '
                        f'bracket vector ({tagfn(0)})', case=case)
            return None
        x = np.atleast_1d(x)
        r.ev(len(lanes))
        if x.shape != (len(lanes),):
            r.violation(f'C18:{solver}:shape', f'{solver} returned shape {x.shape} for {len(lanes)} lanes', case=case)
            return None
        ok = lane_ok(solver, x, lanes, meta)
        if not ok.all():
            i = int(np.nonzero(~ok)[0][0])
            endroot = lanes[i][3] in (0.0, 1.0)
            r.violation(f'C18:{solver}:wrong-root:{"end" if endroot else "interior"}',
                        f'{solver}: lane {lanes[i]} ({tagfn(i)}) returned {x[i]!r}, root is {meta[2][i]!r}, bracket '
                        f'[{meta[0][i]},{meta[1][i]}]', case=case)
        return x

    if kind == 'solo':
        _, k0, k1 = case
        for solver in ('bisect', 'chandrupatla'):
            for k in range(k0, k1):
                check(solver, [LANES[k]], lambda i: 'alone')
                r.state((solver, 'solo', k))
                if 0 < LANES[k][3] < 1:
                    r.nontriv()
        r.hit('solo', k1 - k0)
        r['sample'] = {'composition': 'solo', 'lane': list(map(str, LANES[k0]))}
        return r
    if kind == 'full':
        for solver in ('bisect', 'chandrupatla'):
            check(solver, LANES, lambda i: 'in the 700-lane vector')
            check(solver, LANES[::-1], lambda i: 'in the reversed 700-lane vector')
            r.state((solver, 'full'))
        r.nontriv(2)
        r.hit('full')
        r['sample'] = {'composition': 'full', 'lanes': len(LANES)}
        return r
    if kind == 'pairs':
        _, which, i0, i1 = case
        pool = core_lanes() if which == 'core' else LANES
        for solver in ('bisect', 'chandrupatla'):
            for i in range(i0, min(i1, len(pool))):
                for j in range(len(pool)):
                    check(solver, [pool[i], pool[j]], lambda k: f'pair ({i},{j}) position {k}')
                    r.state((solver, 'pair', which, i, j))
        r.nontriv((min(i1, len(pool)) - i0) * len(pool))
        r.hit('pairs', (min(i1, len(pool)) - i0) * len(pool))
        r['sample'] = {'composition': 'ordered pair', 'first': list(map(str, pool[i0])), 'second': list(map(str, pool[0]))}
        return r
    if kind == 'tiled':
        rot = case[1]
        base = core_lanes()
        base = base[rot * 7 % len(base):] + base[:rot * 7 % len(base)]
        for solver in ('bisect', 'chandrupatla'):
            for n in (1, 2, 3, 10, 100, 1000):
                lanes = [base[k % len(base)] for k in range(n)]
                check(solver, lanes, lambda i: f'tiled vector of length {n}, rotation {rot}')
                r.state((solver, 'tiled', rot, n))
        r.nontriv(6)
        r.hit('tiled')
        r['sample'] = {'composition': 'tiled', 'rotation': rot, 'lengths': [1, 2, 3, 10, 100, 1000]}
        return r
    if kind == 'zero-width':
        # a degenerate but valid bracket [x0, x0] with f(x0) = 0, alone and next to lanes that need many iterations
        core = core_lanes()
        for z in ZERO_WIDTH:
            for solver in ('bisect', 'chandrupatla'):
                check(solver, [z], lambda i: 'zero-width bracket alone')
                for k, lane in enumerate(core):
                    check(solver, [z, lane], lambda i: f'zero-width bracket first, core lane {k} second')
                    check(solver, [lane, z], lambda i: f'core lane {k} first, zero-width bracket second')
                    r.state((solver, 'zero-width', z, k))
                check(solver, [z] + core + [z], lambda i: 'zero-width brackets around the 60-lane core')
        # plateaus of roots: f is 0 at BOTH ends of a bracket of positive width (or on its middle part)
        for z in PLATEAU:
            for solver in ('bisect', 'chandrupatla'):
                check(solver, [z], lambda i: f'plateau lane {z} alone')
                for k, lane in enumerate(core):
                    check(solver, [z, lane], lambda i: f'plateau lane {z} first, core lane {k} second')
                    check(solver, [lane, z], lambda i: f'core lane {k} first, plateau lane {z} second')
                    r.state((solver, 'plateau', z, k))
                check(solver, [z] + core + [z], lambda i: f'plateau lanes {z} around the 60-lane core')
        r.nontriv(len(ZERO_WIDTH) * 2 * len(core))
        r.hit('zero-width')
        r['sample'] = {'composition': 'zero-width bracket at a root', 'lanes': [list(map(str, z)) for z in ZERO_WIDTH]}
        return r
    if kind == 'tiny-values':
        core = core_lanes()
        for tiny in TINY_LANES:
            for solver in ('bisect', 'chandrupatla'):
                check(solver, [tiny], lambda i: f'tiny-valued lane {tiny} alone')
                check(solver, [tiny], lambda i: f'tiny-valued lane {tiny} alone (scalar call)', scalar=True) if solver == 'chandrupatla' else None
                for k, lane in enumerate(core):
                    check(solver, [tiny, lane], lambda i: f'tiny-valued lane {tiny} first, core lane {k} second')
                    check(solver, [lane, tiny], lambda i: f'core lane {k} first, tiny-valued lane {tiny} second')
                    r.state((solver, 'tiny-values', tiny, k))
                check(solver, [tiny] * 200, lambda i: f'200 copies of the tiny-valued lane {tiny}')
                check(solver, TINY_LANES + core + TINY_LANES[::-1], lambda i: 'tiny-valued lanes around the 60-lane core')
        r.nontriv(len(TINY_LANES) * 2 * len(core))
        r.hit('tiny-values')
        r['sample'] = {'composition': 'tiny function values', 'lanes': [list(map(str, z)) for z in TINY_LANES]}
        return r
    if kind == 'magnitudes':
        # lanes of very different magnitude in one call: every lane keeps ITS OWN tolerance (1e-9 of its own bracket width)
        core = core_lanes()
        for big in HUGE_LANES:
            for solver in ('bisect', 'chandrupatla'):
                check(solver, [big], lambda i: 'huge lane alone')
                for k, lane in enumerate(core):
                    check(solver, [big, lane], lambda i: f'huge lane first, core lane {k} second')
                    check(solver, [lane, big], lambda i: f'core lane {k} first, huge lane second')
                    r.state((solver, 'magnitudes', big, k))
                check(solver, [big] + core + [big], lambda i: 'huge lanes around the 60-lane core')
        r.nontriv(len(HUGE_LANES) * 2 * len(core))
        r.hit('magnitudes')
        r['sample'] = {'composition': 'mixed magnitudes', 'huge_lanes': [list(map(str, z)) for z in HUGE_LANES]}
        return r
    if kind == 'dtypes':
        # brackets handed over as integer or float32 arrays (valid element-wise brackets with integer end points)
        from copulas.optimize import bisect, chandrupatla
        lanes = [l for l in LANES if l[2] != (2.0, 2.5) and 0 < l[3] < 1 and l[1] in (1e-3, 1.0, 1e3)]
        f, a, b, root, w = make_f(lanes)
        for dt in (np.int64, np.int32, np.float32):
            for solver, fn in (('bisect', bisect), ('chandrupatla', chandrupatla)):
                r.tr()
                r.ev(len(lanes))
                try:
                    x = np.asarray(fn(f, a.astype(dt), b.astype(dt)), float)
                except Exception as e:
                    r.violation(f'C18:{solver}:raises:{type(e).__name__}', f'{solver} raised {type(e).__name__}: {e} for brackets '
                                f'given as {np.dtype(dt).name} arrays', case=case)
                    continue
                tol = (1e-8 if solver == 'bisect' else 1e-9 * w) + (1e-6 * np.maximum(1, np.abs(root)) if dt == np.float32 else 0)
                with np.errstate(all='ignore'):
                    ok = (np.abs(x - root) <= tol) | ((solver == 'chandrupatla') & (f(x) == 0))
                if not ok.all():
                    i = int(np.nonzero(~ok)[0][0])
                    r.violation(f'C18:{solver}:wrong-root:bracket-dtype', f'{solver}: lane {lanes[i]} with brackets given as '
                                f'{np.dtype(dt).name} arrays returned {x[i]!r}, root is {root[i]!r}', case=case)
                r.state((solver, 'dtype', np.dtype(dt).name))
        # brackets handed over as pandas Series whose index is a permutation of 0..n-1 / offset / strings (positional meaning)
        import pandas as pd
        for iname, index in (('permuted', np.argsort((np.arange(len(lanes)) * 7919) % len(lanes), kind='stable')),
                             ('offset', np.arange(len(lanes)) + 1000), ('strings', [f'k{i}' for i in range(len(lanes))])):
            for solver, fn in (('bisect', bisect), ('chandrupatla', chandrupatla)):
                r.tr()
                r.ev(len(lanes))
                try:
                    x = np.asarray(fn(f, pd.Series(a.copy(), index=index), pd.Series(b.copy(), index=index)), float)
                except Exception as e:
                    r.violation(f'C18:{solver}:raises:{type(e).__name__}:series-brackets', f'{solver} raised {type(e).__name__}: {e} for '
                                f'brackets given as Series with a {iname} index', case=case)
                    continue
                tol = (1e-8 if solver == 'bisect' else 1e-9 * w)
                with np.errstate(all='ignore'):
                    ok = (np.abs(x - root) <= tol) | ((solver == 'chandrupatla') & (f(x) == 0))
                if x.shape != root.shape or not ok.all():
                    i = int(np.nonzero(~ok)[0][0]) if x.shape == root.shape else 0
                    r.violation(f'C18:{solver}:wrong-root:series-brackets', f'{solver}: lane {lanes[i]} with brackets given as Series '
                                f'with a {iname} index returned {x[i] if x.shape == root.shape else x.shape!r}, root is {root[i]!r}',
                                case=case)
                r.state((solver, 'series', iname))
        r.nontriv(6)
        r.hit('dtypes')
        r['sample'] = {'composition': 'bracket dtypes', 'dtypes': ['int64', 'int32', 'float32'], 'lanes': len(lanes)}
        return r
    if kind == 'scalar':
        for k, lane in enumerate(LANES):
            x = check('chandrupatla', [lane], lambda i: 'scalar input', scalar=True)
            if x is not None:
                v, _ = solve('chandrupatla', [lane])
                if abs(float(np.ravel(x)[0]) - float(v[0])) > 2e-9 * (lane[2][1] - lane[2][0]):
                    r.violation('C18:chandrupatla:scalar-differs', f'chandrupatla: scalar call on lane {lane} gives '
                                f'{float(np.ravel(x)[0])!r}, one-element vector {float(v[0])!r}', case=case)
            r.state(('scalar', k))
        # plain Python floats end to end (brackets AND function values), on one lane per family x bracket
        from copulas.optimize import chandrupatla
        for lane in [l for l in LANES if l[1] == 1.0 and l[3] == 0.731]:
            f, a, b, root, w = make_f([lane])
            r.tr()
            r.ev()
            try:
                x = chandrupatla(lambda t: float(f(np.array([t]))[0]), float(a[0]), float(b[0]))
            except Exception as e:
                r.violation(f'C18:chandrupatla:raises:{type(e).__name__}:python-floats', f'chandrupatla raised {type(e).__name__}: '
                            f'{e} for lane {lane} given as plain Python floats (function values included)', case=case)
                continue
            if not (np.shape(x) == () and abs(float(x) - root[0]) <= 1e-9 * w[0]):
                r.violation('C18:chandrupatla:wrong-root:python-floats', f'chandrupatla: lane {lane} as plain Python floats '
                            f'returned {x!r}, root is {root[0]!r}', case=case)
        r.nontriv(len(LANES))
        r.hit('scalar')
        r['sample'] = {'composition': 'scalar', 'lanes': len(LANES)}
        return r
    # invalid brackets: f(xmin) > 0 or f(xmax) < 0, alone and embedded in a valid vector
    from copulas.optimize import bisect, chandrupatla
    valid = core_lanes()[:4]
    n_bad = 0
    for lane in LANES:
        fam_, s, (a, b), p = lane
        if p in (0.0, 1.0):
            continue
        root = a + p * (b - a)
        for which in ('min-above-root', 'max-below-root', 'reversed'):
            # bracket entirely on one side of the root, or with its ends exchanged (f(xmin) > 0 > f(xmax))
            if which == 'min-above-root':
                lo, hi = root + 0.25 * (b - root), b
            elif which == 'max-below-root':
                lo, hi = a, a + 0.75 * (root - a)
            else:
                lo, hi = b, a
            if which != 'reversed' and not (lo < hi):
                continue
            for pos in ('alone', 0, 2, 4):
                lanes = [lane] if pos == 'alone' else valid[:pos] + [lane] + valid[pos:]
                idx = 0 if pos == 'alone' else pos
                f, A_, B_, _, _ = make_f(lanes)
                A_, B_ = A_.copy(), B_.copy()
                A_[idx], B_[idx] = lo, hi
                with np.errstate(all='ignore'):
                    fl, fh = f(A_)[idx], f(B_)[idx]
                if not (fl > 0 or fh < 0):
                    continue          # function saturates/underflows to 0 at the bracket end: not an invalid bracket
                if fl == 0 or fh == 0:
                    continue
                for solver, fn in (('bisect', bisect), ('chandrupatla', chandrupatla)):
                    r.tr()
                    r.ev()
                    n_bad += 1
                    try:
                        out = fn(f, A_.copy(), B_.copy())
                        r.violation(f'C18:{solver}:invalid-bracket-accepted', f'{solver}: lane {lane} with bracket [{lo},{hi}] '
                                    f'(no sign change; {which}) at position {pos} returned {np.asarray(out)[idx]!r} instead '
                                    f'of raising', case=case)
                    except Exception:
                        pass
                r.state(('invalid', lane, which, pos))
    # a bracket end at which the function is not defined (nan): f(xmin) <= 0 <= f(xmax) does not hold, so this is an invalid
    # bracket too - alone, inside a valid vector, and as a scalar call
    core = core_lanes()
    for k_, lane in enumerate(core[:12]):
        for end in ('xmin', 'xmax'):
            for pos in ('alone', 0, 2, 'scalar'):
                lanes = [lane] if pos in ('alone', 'scalar') else valid[:pos] + [lane] + valid[pos:]
                idx = 0 if pos in ('alone', 'scalar') else pos
                f, A_, B_, _, _ = make_f(lanes)
                bad_x = A_[idx] if end == 'xmin' else B_[idx]

                def fnan(x, f=f, idx=idx, bad_x=bad_x):
                    y = np.array(f(x), dtype=float, copy=True)
                    xx = np.atleast_1d(np.asarray(x, float))
                    if y.ndim == 0:
                        return np.float64(np.nan) if xx[0] == bad_x else y
                    y[idx] = np.where(xx[idx] == bad_x, np.nan, y[idx])
                    return y
                for solver, fn in (('bisect', bisect), ('chandrupatla', chandrupatla)):
                    if pos == 'scalar' and solver == 'bisect':
                        continue
                    r.tr()
                    r.ev()
                    n_bad += 1
                    try:
                        with np.errstate(all='ignore'), warnings.catch_warnings():
                            warnings.simplefilter('ignore')
                            if pos == 'scalar':
                                out = fn(lambda t: fnan(np.array([t]))[0], np.float64(A_[0]), np.float64(B_[0]))
                            else:
                                out = fn(fnan, A_.copy(), B_.copy())
                        r.violation(f'C18:{solver}:invalid-bracket-accepted:nan-end', f'{solver}: lane {lane} whose function is nan '
                                    f'at {end} (position {pos}) returned {np.ravel(np.asarray(out))[idx]!r} instead of raising',
                                    case=case)
                    except Exception:
                        pass
                r.state(('invalid-nan', k_, end, pos))
    r.nontriv(n_bad)
    r.hit('invalid', n_bad)
    r['sample'] = {'composition': 'invalid bracket', 'cases': n_bad}
    return r


def finish(agg, tier):
    engine.require(agg['hits'].get('solo', 0) == len(LANES), 'solo lanes not exhausted')
    engine.require(agg['hits'].get('pairs', 0) >= 3600, 'pairs not exhausted')
    engine.require(agg['hits'].get('invalid', 0) >= 2000, 'invalid brackets under-explored')
    for k in ('full', 'tiled', 'scalar', 'dtypes', 'zero-width', 'magnitudes', 'tiny-values'):
        engine.require(agg['hits'].get(k, 0) >= 1, f'{k} missing')
