"""C11 - select_copula returns a calibrated candidate and recovers the true family.

(i)  exhaustive rank patterns n = 2..5 (two mappings): result class, tau, theta calibration, Frank for tau <= 0,
     determinism on equal-but-distinct arrays, argument untouched, deprecated alias agrees;
(ii) recovery cells family x tau x K datasets of n = 4000 (one lattice push-forward through the reference
     conditional inverse + K-1 pseudo-random ones from independent reference samplers).
"""
import math
import warnings

import numpy as np

from mc import alphabets as A
from mc import engine

PROPERTY = 'C11'
LEVEL = 'exploration'
ENGINE = 'E1-product-explorer'
TECHNIQUE = ('exhaustive enumeration of all rank patterns of n<=5 points (two mappings) through select_copula against '
             'a definition-level tau-b/calibration oracle, plus a fixed enumerated alphabet of 15 (family,tau) '
             'recovery cells x K reference-sampler datasets')
LEVEL_TEXT = ('part (i) is complete over the rank-pattern space of n<=5 points; part (ii) decides recovery on a fixed, '
              'explicitly enumerated dataset alphabet (threshold 70% per cell as in the property). Larger n and other '
              'seeds are not enumerated: exploration.')
LEVEL_NOTE = ('trusted: tau-b reference, reference samplers (self-tested against the mpmath h-function), scipy quad; '
              'cells below threshold are re-enumerated with K=200 before being reported')
RULE = ('(i) every (tie pattern, weak order) n=2..5 x {open,closed}; (ii) family in {clayton,gumbel,frank} x tau in '
        '{.3,.4,.5,.6,.7} x K datasets n=4000 | 9000; (iii) lattice tables of 24 000 - 40 000 rows (calibration; family recovered whenever every 7th / 10th row is); non-trivial = tau defined (i) / every dataset (ii); distinct = distinct '
        'dataset')
ASSUMPTIONS = ['recovery is decided on the enumerated dataset alphabet only', 'VERIF_SEED only changes the sampler seeds']

CHUNK = 400
CELL_TAUS = (0.3, 0.4, 0.5, 0.6, 0.7)
N_REC = 4000
N_BIG = 9000          # every other recovery data set is larger than any plausible internal block size


def bounds(tier):
    return {'n_max_exhaustive': 5 if tier == 'quick' else 6, 'recovery_cells': 15, 'K': 12 if tier == 'quick' else 40, 'n_recovery': [N_REC, N_BIG]}


def prefork():
    for n in (2, 3, 4, 5):
        A.rank_patterns(n)
    A.korobov_generator(N_REC + 1, 2)


def cases(tier, seed):
    out = []
    K = 12 if tier == 'quick' else 40
    for fam in ('clayton', 'gumbel', 'frank'):
        for t in CELL_TAUS:
            for k0 in range(0, K, 4):
                out.append(('cell', fam, t, k0, min(K, k0 + 4), seed))
    for n in ((5, 4, 3, 2) if tier == 'quick' else (6, 5, 4, 3, 2)):
        total = {2: 6, 3: 52, 4: 600, 5: 8656, 6: 149856}[n]
        for mapping in ('open', 'closed'):
            for start in range(0, total, CHUNK):
                out.append(('patterns', n, start, min(total, start + CHUNK), mapping, 0))
    # one process, several data sets whose Kendall taus agree to 5 decimals but are not equal: each result is calibrated to ITS
    # tau (nothing remembered from an earlier, nearly equal call)
    for t in (-0.5, -0.05, 0.3, 0.6):
        out.append(('close-taus', t, 0, 0, 0, 0))
    # tables long enough that any thinning / blocking of the rows would show in tau and theta
    for fam, t in (('frank', 0.5), ('clayton', 0.4), ('frank', -0.3)):
        out.append(('large', fam, t, 24000, 0, 0))
    # ... and in the FAMILY: a lattice sample of 30 000 / 40 000 rows at a clear tau must be recovered (a blocked tail-curve
    # computation that drops or double-counts a block leaves tau and theta alone and only moves the choice)
    for fam, t, n in (('clayton', 0.5, 30000), ('clayton', 0.7, 30000), ('gumbel', 0.5, 30000), ('gumbel', 0.7, 40000),
                      ('frank', 0.5, 30000), ('clayton', 0.6, 40000)):
        out.append(('large', fam, t, n, 1, 0))
    return out


def theta_for(fam, tau):
    from scipy.optimize import brentq
    from mc.ref import kendall as K
    if fam == 'frank':
        return brentq(lambda th: K.frank_tau_fast(th) - tau, 1e-6, 200)
    return K.theta_from_tau(fam, tau)


def cell_dataset(fam, tau, k, seed):
    from mc.ref import samplers
    th = theta_for(fam, tau)
    if k == 0:
        return samplers.sample(fam, th, N_REC, points=A.lattice(N_REC + 1, 2)[1:])
    n = N_REC if k % 2 == 0 else N_BIG
    rs = np.random.RandomState((1000003 * (seed + 1) + 7919 * k + int(tau * 100) * 31 +
                                {'clayton': 1, 'gumbel': 2, 'frank': 3}[fam]) % (2 ** 32))
    return samplers.sample(fam, th, n, rs=rs)


def _calibrated(r, res, tref, case, tag):
    from mc.ref import kendall as K
    fam = type(res).__name__.lower()
    sig = 'C11:calibration'
    if not (res.tau is not None and abs(res.tau - tref) <= 1e-12):
        r.violation('C11:tau', f'select_copula({tag}).tau={res.tau!r} but Kendall tau-b={tref!r}', case=case)
        return
    th = res.theta
    if fam in ('clayton', 'gumbel'):
        ref = K.theta_from_tau(fam, tref)
        if tref == 1.0:
            return
        if ref is None or not abs(th - ref) <= 1e-12 * max(1, abs(ref)):
            r.violation(f'{sig}:{fam}', f'select_copula({tag}) -> {fam} theta={th!r}, calibration of tau={tref!r} is '
                        f'{ref!r}', case=case)
    else:
        if th == 0 or not math.isfinite(th):
            r.violation(f'{sig}:frank', f'select_copula({tag}) -> frank theta={th!r}', case=case)
        elif abs(tref) <= 0.99:
            tt = K.frank_tau_fast(th)
            if not abs(tt - tref) <= 1e-6 + 5e-7 / th ** 2:
                r.violation(f'{sig}:frank', f'select_copula({tag}) -> frank theta={th!r} has tau {tt!r}, data tau='
                            f'{tref!r}', case=case)


def run_case(case):
    from copulas.bivariate import Clayton, Frank, Gumbel, select_copula
    from copulas.bivariate.base import Bivariate
    from mc.ref import kendall as K
    r = engine.new_result()
    kind = case[0]
    if kind == 'patterns':
        _, n, start, stop, mapping, _ = case
        kept = []
        for idx in range(start, stop):
            X = A.pattern_array(n, idx, mapping)
            tag = f'n={n} pattern#{idx} {mapping}'
            snap = X.copy()
            tref = K.tau_b(X[:, 0], X[:, 1])
            r.tr()
            r.ev()
            r.state((n, idx, mapping))
            try:
                res = select_copula(X)
            except Exception as e:
                if math.isnan(tref) and isinstance(e, ValueError):
                    r.hit('constant-column-ValueError')
                    continue
                r.violation(f'C11:raises:{type(e).__name__}', f'select_copula({tag}) raised {type(e).__name__}: {e}',
                            case=case, X=X)
                continue
            if math.isnan(tref):
                r.violation('C11:constant-accepted', f'select_copula({tag}) returned {type(res).__name__} for a '
                            f'constant column', case=case, X=X)
                continue
            r.nontriv()
            if not np.array_equal(X, snap):
                r.violation('C11:argument-modified', f'select_copula({tag}) modified its argument', case=case)
            if type(res) not in (Frank, Clayton, Gumbel):
                r.violation('C11:result-class', f'select_copula({tag}) returned {type(res).__name__}', case=case)
                continue
            fam = type(res).__name__.lower()
            r.outcome(fam)
            if len(kept) < 40:
                kept.append((tag, res, (type(res).__name__, res.tau, res.theta)))
            if tref <= 0 and fam != 'frank':
                r.violation('C11:nonpositive-tau-not-frank', f'select_copula({tag}): tau={tref!r} <= 0 but family={fam}',
                            case=case, X=X)
            _calibrated(r, res, tref, case, tag)
            # the same table stored with dtype=object (what DataFrame.to_numpy() yields for object columns): same answer
            if idx % 7 == 0:
                r.tr()
                try:
                    reso = select_copula(X.astype(object))
                    if type(reso) is not type(res) or not (reso.theta == res.theta or (math.isnan(reso.theta) and math.isnan(res.theta))):
                        r.violation('C11:dtype-dependence', f'select_copula({tag}) stored as dtype=object gives '
                                    f'{type(reso).__name__}({reso.theta!r}) vs {type(res).__name__}({res.theta!r})', case=case, X=X)
                except Exception as e:
                    r.violation(f'C11:raises:{type(e).__name__}:object-dtype', f'select_copula({tag}) stored as dtype=object raised '
                                f'{type(e).__name__}: {e}', case=case, X=X)
            # determinism on an equal-but-distinct array, and the deprecated alias
            r.tr(2)
            res2 = select_copula(np.array(X.tolist()))
            with warnings.catch_warnings():
                warnings.simplefilter('ignore')
                res3 = Bivariate.select_copula(X.copy())
            for other, what in ((res2, 'second call'), (res3, 'Bivariate.select_copula alias')):
                if type(other) is not type(res) or not (other.theta == res.theta or
                                                       (math.isnan(other.theta) and math.isnan(res.theta))):
                    r.violation('C11:non-deterministic', f'select_copula({tag}): {what} gives '
                                f'{type(other).__name__}({other.theta!r}) vs {type(res).__name__}({res.theta!r})',
                                case=case, X=X)
        # results returned earlier must not change when select_copula is called again (no state shared between results)
        for (tag_, res_, snap_) in kept:
            now = (type(res_).__name__, res_.tau, res_.theta)
            if now != snap_ and not (snap_[2] != snap_[2] and now[2] != now[2]):
                r.violation('C11:result-changed-by-later-call', f'the copula returned by select_copula({tag_}) was {snap_} and is '
                            f'{now} after later select_copula calls', case=case)
                break
        r.hit(f'n={n}', stop - start)
        r['sample'] = {'n': n, 'pattern_index': start, 'mapping': mapping,
                       'X': A.pattern_array(n, start, mapping).tolist()}
        return r

    if kind == 'close-taus':
        t = case[1]
        X0 = A.designed_tau_array(1000, t)
        variants = [('designed n=1000 tau~%s' % t, X0)]
        order = np.argsort(X0[:, 0], kind='stable')
        for nsw in (1, 2, 3):
            Y = X0.copy()
            for j in range(nsw):
                a_, b_ = order[300 + 10 * j], order[301 + 10 * j]
                Y[[a_, b_], 1] = Y[[b_, a_], 1]
            variants.append((f'the same with {nsw} adjacent pair(s) of v exchanged', Y))
        taus = []
        for tag, X in variants + variants[::-1]:
            tref = K.tau_b(X[:, 0], X[:, 1])
            taus.append(tref)
            r.tr()
            r.ev()
            r.nontriv()
            res = select_copula(X.copy())
            _calibrated(r, res, tref, case, tag)
            fr = Frank()
            fr.fit(X.copy())
            _calibrated(r, fr, tref, case, tag + ' [Frank.fit]')
            r.state(('close-taus', t, tag))
        engine.require(len(set(taus)) >= 3 and max(taus) - min(taus) < 5e-5, 'close-tau variants are not close and distinct')
        r.hit('close-taus')
        r['sample'] = {'kind': 'close taus', 'taus': sorted(set(taus))}
        return r
    if kind == 'large':
        from mc.ref import samplers
        _, fam, t, n, want_family, _ = case
        th = theta_for(fam, abs(t)) if fam != 'frank' else theta_for('frank', abs(t)) * (1 if t > 0 else -1)
        X = samplers.sample(fam, th, n, points=A.lattice(n + 1, 2)[1:])
        if want_family:
            # rows in an arbitrary (fixed) order: the lattice enumerates its points along the first coordinate
            X = X[np.random.RandomState(5).permutation(n)]
        tref = K.tau_b(X[:, 0], X[:, 1])
        r.tr()
        r.ev()
        r.nontriv()
        r.state(('large', fam, t, n))
        res = select_copula(X.copy())
        _calibrated(r, res, tref, case, f'{fam} lattice sample, n={n}, tau~{t}')
        if want_family:
            got = type(res).__name__.lower()
            r.outcome(f'recover-large:{fam}->{got}')
            # the same rows, first 4000 only, decide the reference answer of the unblocked procedure on this law
            small = type(select_copula(X[:: max(1, n // 4000)].copy())).__name__.lower()
            r.tr()
            if got != fam and small == fam:
                r.violation(f'C11:recovery-large:{fam}', f'select_copula on a {fam} lattice sample of {n} rows (tau~{t}) returns {got}; '
                            f'every {max(1, n // 4000)}th row of the same table ({len(X[:: max(1, n // 4000)])} rows) is recovered as {small}',
                            case=case)
            r.hit('large-family')
        r.hit('large')
        r['sample'] = {'kind': 'large table', 'n': n, 'family': fam, 'tau': tref, 'selected': type(res).__name__}
        return r
    _, fam, tau, k0, k1, seed = case
    hits = 0
    for k in range(k0, k1):
        X = cell_dataset(fam, tau, k, seed)
        r.tr()
        r.ev()
        r.nontriv()
        r.state(('cell', fam, tau, k, seed))
        res = select_copula(X)
        got = type(res).__name__.lower()
        if k % 4 == 0:
            # the same table stored as float32: the same family, and the parameter up to the precision of the storage
            r.tr()
            X32 = X.astype(np.float32)
            r64 = select_copula(X32.astype(np.float64))
            try:
                r32 = select_copula(X32)
                if type(r32) is not type(r64) or not abs(float(r32.theta) - float(r64.theta)) <= 1e-4 * max(1.0, abs(float(r64.theta))):
                    r.violation('C11:dtype-dependence:float32', f'select_copula on the {fam} tau={tau} data set #{k} stored as float32 '
                                f'gives {type(r32).__name__}({float(r32.theta)!r}), the same values as float64 give '
                                f'{type(r64).__name__}({float(r64.theta)!r})', case=case)
            except Exception as e:
                r.violation(f'C11:raises:{type(e).__name__}:float32', f'select_copula on a float32 table raised {type(e).__name__}: {e}',
                            case=case)
        ok = got == fam
        hits += ok
        r.add(f'cell:{fam}:{tau}:n')
        r.add(f'cell:{fam}:{tau}:hit', int(ok))
        r.outcome(f'recover:{fam}->{got}')
    r.hit('cells')
    r['sample'] = {'family': fam, 'tau': tau, 'datasets': [k0, k1], 'recovered': hits, 'n': N_REC}
    return r


def finish(agg, tier):
    engine.require(agg['hits'].get('n=5', 0) == 2 * 8656, 'n=5 patterns not exhausted')
    engine.require(agg['hits'].get('constant-column-ValueError', 0) > 0, 'constant-column branch never reached')
    engine.require(len({k for k in agg['outcomes'] if k in ('frank', 'clayton', 'gumbel')}) == 3,
                   'select_copula never returned one of the three families on the pattern space')
    ex = agg['extra']
    from copulas.bivariate import select_copula
    for fam in ('clayton', 'gumbel', 'frank'):
        for t in CELL_TAUS:
            n, h = ex.get(f'cell:{fam}:{t}:n', 0), ex.get(f'cell:{fam}:{t}:hit', 0)
            engine.require(n >= 8, f'cell {fam}/{t} under-explored')
            if h < 0.7 * n:
                # re-enumerate the cell with K = 200 before reporting (DESIGN.md C11)
                big = 200
                hh = sum(type(select_copula(cell_dataset(fam, t, k, agg['seed'] + 17))).__name__.lower() == fam
                         for k in range(big))
                agg['extra'][f'cell:{fam}:{t}:K200hit'] = hh
                if hh < 0.7 * big:
                    agg['viol'].append({'sig': f'C11:recovery:{fam}', 'case': None, 'detail': {},
                                        'msg': f'select_copula recovers {fam} at tau={t} on only {h}/{n} datasets '
                                               f'(and {hh}/{big} on re-enumeration); required >= 70%'})
