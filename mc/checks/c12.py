"""C12 - conditional sampling fixes the given columns and follows the conditional law.

E3 (model checking): for every fitted model of the alphabet and EVERY non-empty proper subset of its columns as
conditioning set (x value patterns x container x key order x num_rows x seed) the normal draw requested by
sample(num_rows, conditions) is recorded and compared with the Schur-complement reference, independently of the
library's internal column order; a scripted lattice answer checks the conditional law of the output scores.
"""
import itertools

import numpy as np
import pandas as pd
from scipy import stats

from mc import alphabets as A
from mc import engine, seams, tables

PROPERTY = 'C12'
LEVEL = 'model_checking'
ENGINE = 'E3-environment-explorer'
TECHNIQUE = ('exhaustive enumeration of all non-empty proper conditioning subsets x value patterns x containers x key '
             'orders x num_rows x seeds for every model of the zoo; the multivariate-normal request is recorded and '
             'compared with a Schur-complement reference under forward column matching; scripted lattice answers decide '
             'the conditional law of the output scores')
LEVEL_TEXT = ('every conditioning subset of every enumerated model is explored with every value pattern/container/order; '
              'each execution is deterministic because the normal draw is owned, and each is compared with the reference '
              'partitioned-normal model. Models outside the zoo and values between patterns are not enumerated.')
LEVEL_NOTE = 'trusted: numpy solve/eigvalsh, scipy.stats.norm, RandomState.multivariate_normal; marginals are C03'
RULE = ('models (table zoo d=2..4(5) x configs gaussian/default/kde) x all non-empty proper column subsets x 4 value '
        'patterns x {dict, dict reversed, Series} x num_rows {1,5} x seed {None,0}; non-trivial = every combination; distinct '
        '= distinct (model, subset, pattern, container)')
ASSUMPTIONS = ['output columns are matched to columns of the recorded draw by exact forward equality out = ppf(Phi(z))']

EPS = A.EPS32
CONFIGS = ('gaussian-class', 'default', 'kde-instance', 'dict')
PATTERNS = ('medians', 'alt-5-95', 'far-above', 'far-below', 'same-value')
NSCRIPT = 2039


def _tables(tier):
    zoo = tables.table_zoo(tier)
    keep = []
    for t in zoo:
        d, design, mix, consts, n, names = t
        if d > (4 if tier == 'quick' else 5) or n > 300:
            continue
        if design in ('mixed', 'ar1', 'equi-', 'near-singular') or consts:
            keep.append(t)
    return keep


def bounds(tier):
    ts = _tables(tier)
    return {'models': len(ts) * len(CONFIGS), 'subsets_per_d': {d: 2 ** d - 2 for d in (2, 3, 4, 5)},
            'patterns': len(PATTERNS), 'containers': 3, 'script_points': NSCRIPT}


def prefork():
    for d in (1, 2, 3, 4, 5, 6):
        A.korobov_generator(NSCRIPT, d)
        for n in (31, 301):
            A.korobov_generator(n, d)


def cases(tier, seed):
    out = []
    for cfg in CONFIGS:
        for t in _tables(tier):
            out.append((t, cfg, seed, 'fresh'))
            if cfg == 'gaussian-class' and not t[3]:
                # E2 layer: the same object was fitted and conditionally sampled on a differently dependent table before
                out.append((t, cfg, seed, 'refit'))
    # a model re-created from its dict must condition exactly like the model it came from - also on tables with duplicated /
    # affinely related columns, where fit() regularises the correlation matrix
    for name in ROUNDTRIP_TABLES:
        for cfg in ('gaussian-class', 'default'):
            out.append((('struct', name), cfg, seed, 'roundtrip'))
    out.append((('struct', 'near-collinear'), 'gaussian-class', seed, 'near-collinear'))
    out.append((('struct', 'crossed-design'), 'gaussian-class', seed, 'crossed-design'))
    out.sort(key=lambda c: (c[1] != 'default', -c[0][0] if isinstance(c[0][0], int) else 0))
    return out


ROUNDTRIP_TABLES = ('dup(x,x,y)', 'affine(x,3x+1)', 'dup-after-unrelated(a,b,c,b)', 'anti(x,-x,y)', 'one-const', 'integers')


def _roundtrip(r, case):
    from copulas.multivariate import GaussianMultivariate
    (_, name), cfg, seed, _ = case
    df = tables.structural_tables()[name]
    cols = list(df.columns)
    tag0 = f'structural table {name}, config {cfg}'
    r.tr(2)
    gm = tables.fit_gm(df, cfg)
    try:
        twin = GaussianMultivariate.from_dict(gm.to_dict())
    except Exception as e:
        r.violation(f'C12:roundtrip:from_dict-raises:{type(e).__name__}', f'{tag0}: from_dict(to_dict()) raised {e}', case=case)
        return r
    subsets = [s_ for k in range(1, len(cols)) for s_ in itertools.combinations(cols, k)]
    for sub in subsets:
        for pattern in ('medians', 'alt-5-95'):
            vals = values_for(df, sub, pattern)
            outs = []
            for m in (gm, twin):
                m.set_random_state(17)
                r.tr()
                try:
                    outs.append(m.sample(4, conditions=dict(vals)))
                except Exception as e:
                    outs.append(e)
            r.ev()
            r.nontriv()
            r.state((name, cfg, sub, pattern))
            a, b = outs
            if isinstance(a, Exception) or isinstance(b, Exception):
                if type(a) is not type(b):
                    r.violation('C12:roundtrip:conditional-sample', f'{tag0}, conditions {vals}: the fitted model '
                                f'{"raised " + type(a).__name__ if isinstance(a, Exception) else "returned rows"}, the model '
                                f're-created from its dict {"raised " + type(b).__name__ + ": " + str(b) if isinstance(b, Exception) else "returned rows"}',
                                case=case)
                continue
            A_, B_ = a.to_numpy(dtype=float), b.to_numpy(dtype=float)
            if list(a.columns) != list(b.columns) or A_.shape != B_.shape or \
                    not np.allclose(A_, B_, rtol=1e-9, atol=1e-12, equal_nan=True):
                r.violation('C12:roundtrip:conditional-sample', f'{tag0}, conditions {vals}: under the same seed the model '
                            f're-created from its dict samples {B_[0].tolist()} where the fitted model samples {A_[0].tolist()}',
                            case=case)
    r.hit('roundtrip')
    r['sample'] = {'table': name, 'config': cfg, 'subsets': len(subsets)}
    return r


def _near_collinear(r, case):
    """Two columns whose normal-score correlation is within 2e-7 of 1 (but not 1: the matrix is invertible and fit adds no
    ridge), a third column that depends on their difference: conditioning on BOTH uses the exact inverse of S22."""
    n = 400
    P = A.lattice(n + 1, 3)[1:]
    Z = stats.norm.ppf(P)
    a = Z[:, 0]
    eta = Z[:, 1]
    b = a + 3e-4 * eta
    c = 0.5 * a + 2.0 * eta + 0.3 * Z[:, 2]
    df = pd.DataFrame({'a': a, 'b': b, 'c': c})
    gm = tables.fit_gm(df, 'gaussian-class')
    C = np.asarray(gm.correlation.to_numpy(), float)
    cols = ['a', 'b', 'c']
    uni = dict(zip(cols, gm.univariates))
    r.tr()
    r.nontriv()
    r.state(('near-collinear',))
    for k, (va, vb) in enumerate(((0.5, 0.5003), (-1.0, -0.9996), (0.2, 0.2))):
        vals = {'a': va, 'b': vb}
        zref = np.array([stats.norm.ppf(np.clip(float(np.asarray(uni[c_].cdf(np.array([vals[c_]])))[0]), EPS, 1 - EPS)) for c_ in ('a', 'b')])
        mu_ref, S_ref = schur(C, cols, ['c'], ['a', 'b'], zref)
        gm.set_random_state(3)
        with seams.seam() as log:
            r.tr()
            try:
                gm.sample(4, conditions=dict(vals))
            except Exception as e:
                r.violation(f'C12:near-collinear:raises:{type(e).__name__}', f'conditioning on two nearly collinear columns raised '
                            f'{type(e).__name__}: {e}', case=case)
                continue
        dr = seams.draws(log)
        r.ev()
        if len(dr) == 1 and dr[0][0] == 'multivariate_normal' and len(dr[0][1]) >= 2:
            mean = np.ravel(np.asarray(dr[0][1][0], float))
            cov = np.atleast_2d(np.asarray(dr[0][1][1], float))
            # cond(S22) ~ 1e7: two exact float64 solutions differ by ~1e-8; a truncated pseudo-inverse is off by O(1)
            if mean.shape == (1,) and (abs(mean[0] - mu_ref[0]) > 1e-4 * max(1, abs(mu_ref[0])) or abs(cov[0, 0] - S_ref[0, 0]) > 1e-4):
                r.violation('C12:near-collinear:conditional-law', f'conditions {vals} on columns with normal-score correlation '
                            f'{C[0, 1]!r}: the normal draw for the free column uses mean {mean[0]!r} / variance {cov[0, 0]!r}, the Schur '
                            f'values are {mu_ref[0]!r} / {S_ref[0, 0]!r}', case=case)
        else:
            r.hit('protocol-changed')
    r.hit('near-collinear')
    r['sample'] = {'kind': 'near-collinear pair', 'corr': float(C[0, 1]), 'cond': float(np.linalg.cond(C[:2, :2]))}
    return r


def _crossed_design(r, case):
    """A balanced crossed design: `dose` and `temp` have correlation exactly 0, `yield` depends on both. A conditioned column
    that is uncorrelated with the free column still matters through the other conditioned column."""
    lv = np.array([-1.5, -0.5, 0.5, 1.5])
    dose = np.repeat(lv, 4 * 6)
    temp = np.tile(np.repeat(lv, 6), 4)
    noise = np.tile(stats.norm.ppf(A.midpoints(6)), 16) * 0.3
    df = pd.DataFrame({'dose': dose, 'temp': temp, 'yield': dose + temp + noise})
    gm = tables.fit_gm(df, 'gaussian-class')
    C = np.asarray(gm.correlation.to_numpy(), float)
    cols = list(df.columns)
    uni = dict(zip(cols, gm.univariates))
    r.tr()
    r.nontriv()
    r.state(('crossed-design',))
    for given, free in ((('dose', 'yield'), ['temp']), (('temp', 'yield'), ['dose']), (('yield', 'dose'), ['temp'])):
        vals = {given[0]: 0.5, given[1]: -0.7}
        zref = np.array([stats.norm.ppf(np.clip(float(np.asarray(uni[c_].cdf(np.array([vals[c_]])))[0]), EPS, 1 - EPS)) for c_ in given])
        mu_ref, S_ref = schur(C, cols, free, list(given), zref)
        gm.set_random_state(3)
        with seams.seam() as log:
            r.tr()
            try:
                gm.sample(3, conditions=dict(vals))
            except Exception as e:
                r.violation(f'C12:crossed-design:raises:{type(e).__name__}', f'conditions {vals}: raised {type(e).__name__}: {e}', case=case)
                continue
        dr = seams.draws(log)
        r.ev()
        if len(dr) == 1 and dr[0][0] == 'multivariate_normal' and len(dr[0][1]) >= 2:
            mean = np.ravel(np.asarray(dr[0][1][0], float))
            cov = np.atleast_2d(np.asarray(dr[0][1][1], float))
            if mean.shape == (1,) and (abs(mean[0] - mu_ref[0]) > 1e-8 or abs(cov[0, 0] - S_ref[0, 0]) > 1e-8):
                r.violation('C12:crossed-design:conditional-law', f'balanced crossed design (corr(dose, temp) = {C[0, 1]!r}), conditions '
                            f'{vals}: the normal draw for {free[0]!r} uses mean {mean[0]!r} / variance {cov[0, 0]!r}, the Schur values are '
                            f'{mu_ref[0]!r} / {S_ref[0, 0]!r}', case=case)
        else:
            r.hit('protocol-changed')
    r.hit('crossed-design')
    r['sample'] = {'kind': 'crossed design', 'corr_dose_temp': float(C[0, 1])}
    return r


def values_for(df, sub, pattern):
    vals = {}
    for k, c in enumerate(sub):
        x = df[c].to_numpy(dtype=float)
        lo, hi = x.min(), x.max()
        w = (hi - lo) if hi > lo else 1.0
        if pattern == 'medians':
            v = float(np.median(x))
        elif pattern == 'alt-5-95':
            v = float(np.quantile(x, 0.05 if k % 2 == 0 else 0.95))
        elif pattern == 'same-value':
            v = 1.0                       # every conditioned column gets the SAME value (conditions are keyed by column, not value)
        elif pattern == 'far-above':
            v = float(hi + 10 * w)
        else:
            v = float(lo - 10 * w)
        vals[c] = v
    return vals


def schur(C, cols, free, given, z):
    fi = [cols.index(c) for c in free]
    gi = [cols.index(c) for c in given]
    S11 = C[np.ix_(fi, fi)]
    S12 = C[np.ix_(fi, gi)]
    S22 = C[np.ix_(gi, gi)]
    K = np.linalg.solve(S22, S12.T).T
    return K @ z, S11 - K @ S12.T


def run_case(case):
    t, cfg, seed, hist = case
    r = engine.new_result()
    if hist == 'roundtrip':
        return _roundtrip(r, case)
    if hist == 'near-collinear':
        return _near_collinear(r, case)
    if hist == 'crossed-design':
        return _crossed_design(r, case)
    df, info = tables.gaussian_copula_table(t, A.shift_from_seed(seed))
    cols = list(df.columns)
    d = len(cols)
    tag0 = f'table {t}, config {cfg}' + (' (object previously fitted and sampled on another table)' if hist == 'refit' else '')
    r.tr()
    if hist == 'refit':
        other = (t[0], 'equi+' if t[1] != 'equi+' else 'ar1', 'normal', t[3], 30, t[5])
        df0, _ = tables.gaussian_copula_table(other)
        gm = tables.fit_gm(df0, cfg)
        for k in range(1, d):
            for sub in itertools.combinations(cols, k):
                for keys in (list(sub), list(sub)[::-1]):
                    gm.sample(2, conditions={c: float(df0[c].iloc[0]) for c in keys})
        gm.probability_density(df0.iloc[:2])
        gm.fit(df.copy())
        r.hit('refit-history')
    else:
        gm = tables.fit_gm(df, cfg)
        # ANOTHER model object with the same column names but another dependence (both fitted) conditions on every subset first: nothing it
        # computed may leak into this model (no state shared between instances)
        if d <= 4:
            other = (t[0], 'equi+' if t[1] != 'equi+' else 'ar1', 'normal', (), 30, t[5])
            dfd, _ = tables.gaussian_copula_table(other)
            dfd.columns = cols
            decoy = tables.fit_gm(dfd, 'gaussian-class')
            for k in range(1, d):
                for sub in itertools.combinations(cols, k):
                    decoy.sample(1, conditions={c: float(dfd[c].iloc[1]) for c in sub})
            r.hit('decoy-model')
    C = np.asarray(gm.correlation.to_numpy(), float)
    uni = dict(zip(cols, gm.univariates))
    subsets = [s for k in range(1, d) for s in itertools.combinations(cols, k)]
    scripted = 0
    protocol_ok = True
    for sub in subsets:
        free = [c for c in cols if c not in sub]
        for pattern in PATTERNS:
            vals = values_for(df, sub, pattern)
            zref = np.array([stats.norm.ppf(np.clip(float(np.asarray(uni[c].cdf(np.array([vals[c]])))[0]), EPS, 1 - EPS))
                             for c in sub])
            mu_ref, S_ref = schur(C, cols, free, list(sub), zref)
            for container in ('dict', 'dict-reversed', 'series'):
                if container == 'dict-reversed' and len(sub) == 1:
                    continue
                for rows, sd in ((1, None), (5, 0)):
                    keys = list(sub)[::-1] if container == 'dict-reversed' else list(sub)
                    if container == 'series':
                        cond = pd.Series({k: vals[k] for k in keys})
                        snap = cond.copy(deep=True)
                    else:
                        cond = {k: vals[k] for k in keys}
                        snap = dict(cond)
                    tag = f'{tag0}, conditions={container}{dict((str(k), vals[k]) for k in keys)}'
                    r.state((t, cfg, hist, sub, pattern, container, rows))
                    r.nontriv()
                    r.ev()
                    gm.set_random_state(sd)
                    np.random.seed(99)
                    try:
                        with seams.seam() as log:
                            r.tr()
                            out = gm.sample(rows, conditions=cond)
                    except Exception as e:
                        r.violation(f'C12:raises:{type(e).__name__}:{container.split("-")[0]}',
                                    f'{tag}: sample raised {type(e).__name__}: {e}', case=case)
                        continue
                    same = cond.equals(snap) and list(cond.index) == list(snap.index) if container == 'series' \
                        else (cond == snap and list(cond) == list(snap))
                    if not same:
                        r.violation('C12:conditions-modified', f'{tag}: the caller\'s conditions object was modified',
                                    case=case)
                        cond = snap.copy() if container == 'series' else dict(snap)
                    if list(out.columns) != cols or len(out) != rows:
                        r.violation('C12:schema', f'{tag}: output has {len(out)} rows, columns {list(out.columns)}', case=case)
                        continue
                    O = out.to_numpy(dtype=float)
                    bad = [c for c in sub if not np.all(O[:, cols.index(c)] == vals[c])]
                    if bad:
                        r.violation('C12:conditioned-column-not-fixed', f'{tag}: column {bad[0]!r} is '
                                    f'{O[:, cols.index(bad[0])].tolist()} instead of the given {vals[bad[0]]!r}', case=case)
                        continue
                    if not protocol_ok:
                        continue
                    dr = seams.draws(log)
                    m = len(free)
                    ok_draw = len(dr) == 1 and dr[0][0] == 'multivariate_normal' and len(dr[0][1]) >= 2
                    if ok_draw:
                        _, args, kw, Z = dr[0]
                        mean = np.asarray(args[0], float)
                        cov = np.asarray(args[1], float)
                        Z = np.asarray(Z, float).reshape(rows, -1)
                        # (a draw with MORE columns than there are free columns is still decided exactly: the free columns must
                        # be element-wise transforms of m of its columns, and the marginal law of those columns is the Schur law)
                        mm = mean.shape[0] if mean.ndim == 1 else -1
                        ok_draw = mm >= m and cov.shape == (mm, mm) and Z.shape == (rows, mm) and kw.get('size') == rows
                    if not ok_draw:
                        # the conditional normal scores are drawn in another (possibly equally valid) way: the exact comparison
                        # of the request no longer applies; the conditional law is decided on a large seeded sample below
                        protocol_ok = False
                        r.hit('protocol-changed')
                        # a one-row request drawn in another way: pool many one-row calls of the seeded model and compare the
                        # normal scores of the free columns with the Schur law (6-sigma bands; moderate conditioning scores only,
                        # where cdf -> ppf recovers the scores)
                        if rows == 1 and len(free) >= 1 and np.max(np.abs(zref)) <= 2.6 and np.linalg.eigvalsh(S_ref).min() > 1e-6:
                            N = 2000
                            gm.set_random_state(4242)
                            try:
                                pool = np.vstack([gm.sample(1, conditions=cond)[free].to_numpy(dtype=float) for _ in range(N)])
                            except Exception as e:
                                r.violation(f'C12:raises:{type(e).__name__}:pooled', f'{tag}: repeated sample(1, conditions) raised '
                                            f'{type(e).__name__}: {e}', case=case)
                                continue
                            r.tr(N)
                            Zp = np.column_stack([stats.norm.ppf(np.clip(np.asarray(uni[c].cdf(pool[:, j]), float), 1e-12, 1 - 1e-12))
                                                  for j, c in enumerate(free)])
                            mh, Ch = Zp.mean(axis=0), np.atleast_2d(np.cov(Zp, rowvar=False))
                            sd_ = np.sqrt(np.diag(S_ref))
                            band_m = 6 * sd_ / np.sqrt(N) + 1e-3
                            band_c = 6 * np.sqrt((np.outer(sd_ ** 2, sd_ ** 2) + S_ref ** 2) / N) + 1e-3
                            if np.any(np.abs(mh - mu_ref) > band_m) or np.any(np.abs(Ch - S_ref) > band_c):
                                r.violation('C12:pooled-one-row:conditional-law', f'{tag}: {N} one-row conditional samples of the '
                                            f'seeded model have normal-score mean {mh.round(3).tolist()} / covariance '
                                            f'{Ch.round(3).tolist()}; the Schur law is {mu_ref.round(3).tolist()} / '
                                            f'{S_ref.round(3).tolist()}', case=case)
                        continue
                    if not np.allclose(cov, cov.T, rtol=0, atol=1e-12) or np.linalg.eigvalsh((cov + cov.T) / 2).min() < -1e-10:
                        r.violation('C12:covariance-invalid', f'{tag}: conditional covariance is not symmetric PSD', case=case)
                        continue
                    # forward matching of output columns to columns of the draw
                    cand = []
                    for c in free:
                        oc = O[:, cols.index(c)]
                        cand.append([i for i in range(Z.shape[1])
                                     if np.array_equal(oc, np.asarray(uni[c].percent_point(stats.norm.cdf(Z[:, i])), float),
                                                       equal_nan=True)])
                    if any(not x for x in cand):
                        c = free[[i for i, x in enumerate(cand) if not x][0]]
                        r.violation('C12:output-not-transform-of-draw', f'{tag}: free column {c!r} is not '
                                    f'percent_point(Phi(z)) of any column of the conditional normal draw', case=case)
                        continue
                    ok = False
                    best = None
                    for assign in itertools.product(*cand):
                        if len(set(assign)) != m:
                            continue
                        a = list(assign)
                        em = float(np.max(np.abs(mean[a] - mu_ref))) if m else 0.0
                        ec = float(np.max(np.abs(cov[np.ix_(a, a)] - S_ref))) if m else 0.0
                        if best is None or em + ec < best[0] + best[1]:
                            best = (em, ec)
                        if em <= 1e-9 and ec <= 1e-9:
                            ok = True
                            break
                    if not ok:
                        what = 'mean' if best and best[0] > 1e-9 else 'covariance'
                        r.violation(f'C12:conditional-{what}', f'{tag}: the normal draw uses a conditional {what} that differs '
                                    f'from S12 S22^-1 z / the Schur complement by {best}', case=case,
                                    mean=mean, mean_ref=mu_ref, free=[str(c) for c in free])
                        continue
                    # determinism: a second identical call with the same seed
                    if sd is not None:
                        gm.set_random_state(sd)
                        try:
                            out2 = gm.sample(rows, conditions=cond)
                        except Exception as e:
                            r.violation(f'C12:second-call-raises:{type(e).__name__}', f'{tag}: the same call with the same '
                                        f'conditions object raised {type(e).__name__}: {e} the second time', case=case)
                            continue
                        r.tr()
                        if not out.equals(out2):
                            r.violation('C12:not-reproducible', f'{tag}: two calls with the same seed differ', case=case)
            # ---- scripted conditional law (moderate patterns only, one container) ----------------------------
            # ... whose conditioning scores are moderate: the oracle recovers the normal scores of the OUTPUT through cdf(ppf(.)),
            # which is the identity only away from the marginals' far tails (a "median" of a heavily tied integer column can be
            # the lower bound of its fitted Uniform, i.e. a score of -5.2; the exact request comparison above still covers it)
            if pattern in ('medians', 'alt-5-95') and len(free) >= 1 and scripted < 6 and \
                    np.linalg.eigvalsh(S_ref).min() > 1e-6 and np.max(np.abs(zref)) > 2.6:
                r.hit('script-skipped:extreme-conditioning-score')
            if pattern in ('medians', 'alt-5-95') and len(free) >= 1 and scripted < 6 and \
                    np.linalg.eigvalsh(S_ref).min() > 1e-6 and np.max(np.abs(zref)) <= 2.6:
                scripted += 1
                from mc.checks.c01 import sqrt_psd
                P = A.lattice(NSCRIPT, len(free))
                if protocol_ok:
                    class DrawDimension(Exception):
                        pass

                    def scripted_mvn(mean, cov, size):
                        if len(np.ravel(mean)) != len(free):
                            raise DrawDimension(len(np.ravel(mean)))
                        return np.asarray(mean)[None, :] + stats.norm.ppf(P) @ sqrt_psd(np.asarray(cov, float)).T
                    try:
                        with seams.seam(script={'multivariate_normal': scripted_mvn}):
                            r.tr()
                            gm.set_random_state(None)
                            out = gm.sample(NSCRIPT, conditions=dict(vals))
                    except DrawDimension as ex:
                        r.violation('C12:script:draw-dimension', f'{tag0}, conditions {vals}: the normal draw has dimension {ex} '
                                    f'but {len(free)} columns are free (a condition was ignored or a free column dropped)',
                                    case=case)
                        continue
                    band = 0.03
                else:
                    gm.set_random_state(777 + int(seed))
                    r.tr()
                    out = gm.sample(6000, conditions=dict(vals))
                    gm.set_random_state(None)
                    band = 0.12          # 6000 real draws: |mean| error < 6.5/sqrt(n) = 0.084, covariance error below 0.12 at 1e-9
                scores = np.column_stack([stats.norm.ppf(np.clip(np.asarray(uni[c].cdf(out[c].to_numpy()), float),
                                                                 1e-15, 1 - 1e-15)) for c in free])
                fin = np.all(np.isfinite(scores), axis=1)
                sm = scores[fin].mean(axis=0)
                sc = np.atleast_2d(np.cov(scores[fin], rowvar=False, bias=True))
                em, ec = float(np.max(np.abs(sm - mu_ref))), float(np.max(np.abs(sc - S_ref)))
                r['extra']['max_script_mean_dev_x1000'] = em * 1000
                r['extra']['max_script_cov_dev_x1000'] = ec * 1000
                r.ev(2)
                if em > band or ec > band:
                    r.violation('C12:script:conditional-law', f'{tag0}, conditions {vals}: output normal scores have mean/cov '
                                f'{em:.3f}/{ec:.3f} away from the Schur values', case=case)
                r.hit('script')
    # ---- far-out conditions, scripted draw: the free columns are the SELECTED family's quantiles of Phi(z), also for |z| > 5.17
    # (probabilities within float32 eps of 0 / 1 must not be clipped on the way through a selecting wrapper)
    if protocol_ok and d >= 2:
        import copulas.univariate as U_
        fam_of = {}
        for c in cols:
            try:
                fam_of[c] = U_.Univariate.from_dict(uni[c].to_dict())
            except Exception:
                fam_of[c] = None
        done = 0
        for sub in subsets:
            if done >= 4 or len(sub) != 1:
                continue
            free = [c for c in cols if c not in sub]
            for pattern in ('far-above', 'far-below'):
                vals = values_for(df, sub, pattern)
                P = A.lattice(257, len(free))
                seen = {}

                def scripted_far(mean, cov, size):
                    if len(np.ravel(mean)) != len(free):
                        raise ValueError('unexpected dimension')
                    z = np.asarray(mean)[None, :] + stats.norm.ppf(P) @ sqrt_psd_(np.asarray(cov, float)).T
                    seen['z'] = z
                    return z
                from mc.checks.c01 import sqrt_psd as sqrt_psd_
                try:
                    with seams.seam(script={'multivariate_normal': scripted_far}):
                        r.tr()
                        gm.set_random_state(None)
                        out = gm.sample(257, conditions=dict(vals))
                except Exception:
                    continue                      # failures of far-out conditions are reported by the record-mode loop above
                if 'z' not in seen:
                    continue
                Z = seen['z']
                matched_all = True
                for c in free:
                    if fam_of[c] is None:
                        continue
                    oc = out[c].to_numpy(dtype=float)
                    hit_ = False
                    for i in range(Z.shape[1]):
                        pr = stats.norm.cdf(Z[:, i])
                        with np.errstate(all='ignore'):
                            want = np.asarray(fam_of[c].percent_point(pr), float)
                        okm = np.isclose(oc, want, rtol=1e-9, atol=1e-12, equal_nan=True) | ~np.isfinite(want)
                        if okm.all():
                            hit_ = True
                            break
                    r.ev(len(oc))
                    if not hit_:
                        matched_all = False
                        r.violation('C12:far-condition:free-column-not-quantile-of-draw', f'{tag0}, conditions {vals}: free column '
                                    f'{c!r} is not percent_point(Phi(z)) of the fitted {type(fam_of[c]).__name__} marginal for the '
                                    f'conditional normal scores z (|z| up to {np.max(np.abs(Z)):.1f})', case=case)
                        break
                done += 1
                r.hit('far-condition-script')
                if not matched_all:
                    break
    r.hit(f'd={d}')
    r.hit(f'cfg:{cfg}')
    r['sample'] = {'table': list(map(str, t)), 'config': cfg, 'subsets': len(subsets), 'patterns': list(PATTERNS),
                   'example_subset': [str(c) for c in subsets[-1]]}
    return r


def finish(agg, tier):
    for k in ('d=2', 'd=3', 'd=4', 'script', 'refit-history'):
        engine.require(agg['hits'].get(k, 0) >= 3, f'{k} under-explored')
