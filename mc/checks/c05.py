"""C05 - marginal model choice: best-KS candidate, filters, per-column configuration, fallback.

E1: dataset zoo x candidate configurations (filters, explicit lists in every order with a failing candidate in
every position) with a definition-level KS oracle; GaussianMultivariate x distribution forms (class, name,
instance, dict...) x failing distributions.
"""
import itertools

import numpy as np
import pandas as pd

from mc import engine, uni
from mc.ref import kde as refkde

PROPERTY = 'C05'
LEVEL = 'exploration'
ENGINE = 'E1-product-explorer'
TECHNIQUE = ('bounded-exhaustive enumeration of dataset zoo x candidate configurations (every filter setting; every '
             'ordering of explicit candidate lists with a failing candidate in every position) against a KS statistic '
             'recomputed from the definition on fresh fits; GaussianMultivariate x all distribution forms x failing '
             'distributions')
LEVEL_TEXT = ('every (dataset, configuration) pair is run through the real selection code; the chosen family must be in the '
              'candidate set and attain the minimum of the reference KS statistics of all fittable candidates. Data sets '
              'and candidate lists outside the alphabet are not enumerated: exploration.')
LEVEL_NOTE = ('trusted: the fits of the candidate classes themselves (C03/C04), KS statistic from the definition; the '
              'classification table of the 8 families is the specification of the PARAMETRIC/BOUNDED tags')
RULE = ('dataset zoo (10 shapes x 2 loc/scale x n in {30,200}) x {default, 2 parametric, 3 bounded filters, 6 orders x 4 '
        'insert positions of a failing candidate in a 3-candidate list, names, instances}; multivariate: 14 distribution '
        'forms x 2 tables; non-trivial = every case; distinct = distinct (dataset, configuration)')
ASSUMPTIONS = ['fits are deterministic functions of the data', 'ties in the KS statistic may be broken either way']

ALL8 = ['BetaUnivariate', 'GammaUnivariate', 'GaussianUnivariate', 'GaussianKDE', 'LogLaplace', 'StudentTUnivariate',
        'TruncatedGaussian', 'UniformUnivariate']
PARAM = {c: c != 'GaussianKDE' for c in ALL8}
BOUND = {'BetaUnivariate': 'BOUNDED', 'UniformUnivariate': 'BOUNDED', 'TruncatedGaussian': 'BOUNDED',
         'GammaUnivariate': 'SEMI_BOUNDED', 'LogLaplace': 'SEMI_BOUNDED', 'GaussianUnivariate': 'UNBOUNDED',
         'StudentTUnivariate': 'UNBOUNDED', 'GaussianKDE': 'UNBOUNDED'}


def bounds(tier):
    return {'datasets': len(_datasets(tier)), 'list_orders': 6, 'failing_positions': 4}


def _datasets(tier):
    ns = (30, 200) if tier == 'quick' else (30, 200, 1000)
    return uni.dataset_zoo(ns, locscale=[(0.0, 1.0), (5.0, 1e-3)] if tier == 'quick' else uni.LOCSCALE[:4])


def cases(tier, seed):
    out = [('select', d) for d in _datasets(tier)]
    # data on which some candidate can be fitted but scores nan (it must lose, not win)
    out += [('select', ('int8span', 0.0, 1.0, 60)), ('select', ('underflow', 0.0, 1.0, 100))]
    for form in GM_FORMS:
        for t in (0, 1):
            out.append(('gm', form, t))
    # columns with a large offset / a tiny scale (epoch-like, 1e-9 units): "nearly constant" for a relative tolerance, yet
    # the default selection must still be the min-KS search
    for form in ('default', 'dict-subset', 'boom-dict', 'wrapper-positional'):
        out.append(('gm', form, 2))
    # the same forms on a model that was given a random_state (the seed must not change how columns are modelled)
    for form in GM_FORMS:
        if form != 'dict-reused-after-fallback':
            out.append(('gm-seeded', form, 0))
    return out


def ks_stat(x, cdf):
    xs = np.sort(np.asarray(x, float))
    n = len(xs)
    F = np.asarray(cdf(xs), float)
    i = np.arange(1, n + 1)
    return float(max(np.max(i / n - F), np.max(F - (i - 1) / n)))


def _cls(name):
    import copulas.univariate as U
    return getattr(U, name)


def _ref_ks(x, cand):
    """KS of a fresh fit of one candidate (class, name or instance), nan if it cannot be fitted/evaluated."""
    from copulas.utils import get_instance
    try:
        inst = get_instance(cand)
        inst.fit(x.copy())
        k = ks_stat(x, inst.cdf)
        return k if np.isfinite(k) else float('nan')
    except Exception:
        return float('nan')


def run_case(case):
    r = engine.new_result()
    r.state(case)
    r.nontriv()
    if case[0] in ('gm', 'gm-seeded'):
        return _gm(r, case)
    import copulas.univariate as U
    from mc.boom import Boom, BoomCdf
    dspec = case[1]
    x = uni.dataset(dspec)
    ref = {c: _ref_ks(x, _cls(c)) for c in ALL8}
    r.tr(len(ALL8))

    def check(cfg_name, model, cand_names, extra_ref=None):
        """cand_names: class names of the admissible candidates for this configuration."""
        r.tr()
        r.ev()
        tag = f'Univariate[{cfg_name}] on {dspec}'
        refs = dict((c, ref[c]) for c in cand_names)
        if extra_ref:
            refs.update(extra_ref)
        fittable = {c: k for c, k in refs.items() if np.isfinite(k)}
        cands_obj = getattr(model, 'candidates', None)
        cands_before = list(cands_obj) if isinstance(cands_obj, list) else None
        try:
            model.fit(x.copy())
            if cands_before is not None and not (model.candidates is cands_obj and len(cands_obj) == len(cands_before) and
                                                 all(a is b for a, b in zip(cands_obj, cands_before))):
                # the candidate set is configuration (the caller's list): a fit - also one in which candidates fail - leaves it
                r.violation('C05:select:candidates-modified', f'{tag}: fit changed the candidate list from '
                            f'{[getattr(c, "__name__", type(c).__name__) for c in cands_before]} to '
                            f'{[getattr(c, "__name__", type(c).__name__) for c in model.candidates]}', case=case)
        except Exception as e:
            if fittable:
                r.violation('C05:select:raises', f'{tag}: fit raised {type(e).__name__}: {e} although candidates '
                            f'{sorted(fittable)} can be fitted', case=case)
            return
        try:
            chosen = model.to_dict()['type'].rsplit('.', 1)[1]
        except Exception as e:
            r.violation('C05:select:unusable-selection', f'{tag}: the fitted wrapper cannot report its selection '
                        f'({type(e).__name__}: {e}); selected object: {type(model._instance).__name__}', case=case)
            return
        r.outcome(chosen)
        if chosen not in refs:
            r.violation('C05:select:outside-candidate-set', f'{tag}: selected {chosen}, candidate set is {sorted(refs)}',
                        case=case)
            return
        best = min(fittable.values())
        mine = ks_stat(x, model.cdf)
        if not mine <= best + 1e-12:
            r.violation('C05:select:not-min-ks', f'{tag}: selected {chosen} with KS={mine:.6f} but '
                        f'{min(fittable, key=fittable.get)} has KS={best:.6f}', case=case,
                        ks={k: v for k, v in refs.items()})
        r.state((dspec, cfg_name))

    P, B = U.ParametricType, U.BoundedType
    check('default', U.Univariate(), ALL8)
    # refit history: the same wrapper was fitted on quite different data before
    used = U.Univariate()
    try:
        used.fit(uni.dataset(('uniform', -3.0, 7.0, 40)) if dspec[0] != 'uniform' else uni.dataset(('gamma2', 0.0, 1.0, 40)))
    except Exception:
        pass
    check('default-refit', used, ALL8)
    check('parametric', U.Univariate(parametric=P.PARAMETRIC), [c for c in ALL8 if PARAM[c]])
    check('non-parametric', U.Univariate(parametric=P.NON_PARAMETRIC), [c for c in ALL8 if not PARAM[c]])
    for b in ('BOUNDED', 'SEMI_BOUNDED', 'UNBOUNDED'):
        check(f'bounded={b}', U.Univariate(bounded=B[b]), [c for c in ALL8 if BOUND[c] == b])
    check('parametric+unbounded', U.Univariate(parametric=P.PARAMETRIC, bounded=B.UNBOUNDED),
          [c for c in ALL8 if PARAM[c] and BOUND[c] == 'UNBOUNDED'])
    r.hit('filters')
    # explicit lists: every order of 3 candidates x a failing candidate in every position (and none)
    trio = ['GaussianUnivariate', 'GammaUnivariate', 'UniformUnivariate']
    bad_w = U.GaussianKDE(weights=np.ones(3))          # wrong-length weights: cannot be fitted to len(x) != 3
    for order in itertools.permutations(trio):
        for pos in range(4):
            for bname, bobj in (('Boom', Boom), ('BoomCdf', BoomCdf), ('KDE-bad-weights', bad_w)):
                lst = [_cls(c) for c in order]
                lst.insert(pos, bobj)
                check(f'list={"/".join(order)}+{bname}@{pos}', U.Univariate(candidates=lst), trio)
    r.hit('lists-with-failing-candidate', 72)
    check('names', U.Univariate(candidates=['copulas.univariate.student_t.StudentTUnivariate',
                                            'copulas.univariate.beta.BetaUnivariate']),
          ['StudentTUnivariate', 'BetaUnivariate'])
    kde5 = U.GaussianKDE(bw_method=0.5)
    kk = _ref_ks(x, kde5)
    check('instances', U.Univariate(candidates=[kde5, U.StudentTUnivariate()]), ['StudentTUnivariate'],
          extra_ref={'GaussianKDE': kk})
    check('single', U.Univariate(candidates=[U.LogLaplace]), ['LogLaplace'])
    # selection_sample_size >= number of rows: the search sees the data themselves (not a resample), whatever the global seed
    for extra in (0, 50):
        for gs in (1, 2, 3):
            np.random.seed(gs)
            check(f'selection_sample_size=n+{extra},global-seed={gs}', U.Univariate(selection_sample_size=len(x) + extra), ALL8)
    # several differently configured prototypes of ONE family are different candidates (each is tried, the min-KS one wins)
    for oname, order in (('wide-first', (3.0, None, 0.1)), ('narrow-first', (0.1, None, 3.0)), ('two-truncated', 'trunc')):
        if order == 'trunc':
            lo, hi = float(x.min()), float(x.max())
            w_ = hi - lo if hi > lo else 1.0
            protos = [U.TruncatedGaussian(lo - 50 * w_, hi + 50 * w_), U.TruncatedGaussian(lo - 1e-3 * w_, hi + 1e-3 * w_)]
        else:
            protos = [U.GaussianUnivariate() if b is None else U.GaussianKDE(bw_method=b) for b in order]
        kss = [_ref_ks(x, p_) for p_ in protos]
        fin = [k for k in kss if np.isfinite(k)]
        wrp = U.Univariate(candidates=protos)
        r.tr(len(protos) + 1)
        r.ev()
        try:
            wrp.fit(x.copy())
            mine = ks_stat(x, wrp.cdf)
        except Exception as e:
            if fin:
                r.violation('C05:select:raises', f'Univariate[same-family prototypes, {oname}] on {dspec}: fit raised '
                            f'{type(e).__name__}: {e}', case=case)
            continue
        if fin and not mine <= min(fin) + 1e-12:
            r.violation('C05:select:not-min-ks:same-family-prototypes', f'Univariate[same-family prototypes, {oname}] on {dspec}: '
                        f'selected KS={mine:.6f}, the prototypes fitted one by one have KS={[round(k, 6) for k in kss]}', case=case)
    r.hit('same-family-prototypes')
    r['sample'] = {'dataset': list(dspec), 'reference_ks': {k: (v if np.isfinite(v) else None) for k, v in ref.items()}}
    return r


# ------------------------------------------------------------------------------------------------
GM_FORMS = ['default', 'class', 'name', 'instance', 'instance-no-args', 'fitted-instance', 'instance-positional', 'instance-one-bound',
            'wrapper-positional',
            'dict-all', 'dict-subset', 'dict-mixed', 'boom-class', 'boom-name', 'boom-instance', 'boom-dict',
            'dict-reused-after-fallback', 'wrapper-selection-sample', 'same-class-name-strings', 'same-class-name-strings-reversed', 'user-subclass-instance']


def _table(t):
    import pandas as pd
    from scipy import stats
    from mc import alphabets as A
    n = 80
    P = A.lattice(n + 1, 3)[1:]
    if t == 0:
        cols = {'b': stats.norm(2, 1.5).ppf(P[:, 0]), 'a': stats.gamma(2.0).ppf(P[:, 1]) + 0.5,
                'c': 0.5 * stats.norm.ppf(P[:, 0]) + stats.uniform(1, 8).ppf(P[:, 2])}
    elif t == 1:
        cols = {2: stats.uniform(1, 8).ppf(P[:, 2]), 0: stats.norm(5, 1).ppf(P[:, 0]) ** 2 / 10,
                1: stats.beta(2, 3).ppf(P[:, 1]) * 9 + 0.5}
    else:
        cols = {'epoch': 1.7e9 + 14000.0 * stats.beta(2, 5).ppf(P[:, 0]), 'mid': stats.gamma(2.0).ppf(P[:, 1]) + 0.5,
                'tiny': 1e-9 * stats.uniform(1, 8).ppf(P[:, 2])}
    return pd.DataFrame(cols)


def _gm(r, case):
    import copulas.univariate as U
    from copulas.multivariate import GaussianMultivariate
    from mc.boom import Boom
    _, form, t = case
    df = _table(t)
    cols = list(df.columns)
    c0, c1, c2 = cols
    if form == 'dict-reused-after-fallback':
        # history: the configured distribution of one column fails on a first table (fallback), then the SAME configuration
        # object is used for a second model on data it can fit: that column must be modelled as configured
        from mc.boom import Flaky
        conf = {c1: Flaky, c2: U.UniformUnivariate}
        neg = df.copy()
        neg[c1] = neg[c1] - neg[c1].max() - 1.0          # all negative: Flaky refuses
        pos = df.copy()
        pos[c1] = pos[c1] - pos[c1].min() + 1.0          # all positive: Flaky fits
        tag = f'GaussianMultivariate(distribution=dict with a conditionally failing entry) on table {t}'
        for how in ('same-model-refit', 'new-model-same-dict'):
            gm1 = GaussianMultivariate(distribution=conf)
            r.tr(2)
            r.ev()
            try:
                gm1.fit(neg.copy())
                t1 = type(gm1.univariates[cols.index(c1)]).__name__
                gm2 = gm1 if how == 'same-model-refit' else GaussianMultivariate(distribution=conf)
                gm2.fit(pos.copy())
                t2 = type(gm2.univariates[cols.index(c1)]).__name__
            except Exception as e:
                r.violation(f'C05:gm:fit-raises:{form}', f'{tag}: {how} raised {type(e).__name__}: {e}', case=case)
                break
            if t1 != 'GaussianUnivariate' or t2 != 'Flaky':
                r.violation(f'C05:gm:column-type:{form}', f'{tag} ({how}): column {c1!r} is modelled by {t1} on the table the '
                            f'configured distribution cannot fit (expected the Gaussian fallback) and by {t2} on the table it '
                            f'can fit (expected the configured distribution)', case=case)
                break
        r.hit(f'gm:{form}')
        r['sample'] = {'form': form, 'table': t}
        return r
    if form == 'user-subclass-instance':
        # an instance prototype of a USER subclass whose constructor signature differs from its parent's (both record their
        # arguments with the library's own decorator): the copy made for each column is configured like the prototype
        from copulas.utils import store_args

        class Shifted(U.TruncatedGaussian):
            @store_args
            def __init__(self, lo, random_state=None):
                super().__init__(minimum=lo, maximum=lo + 40.0, random_state=random_state)

        proto = Shifted(-5.0)
        gmu = GaussianMultivariate(distribution=proto)
        r.tr()
        r.ev()
        try:
            gmu.fit(df.copy())
            for c, u in zip(cols, gmu.univariates):
                p_ = u.to_dict()
                ok_ = type(u).__name__ == 'Shifted' and abs(p_['loc'] + p_['a'] * p_['scale'] + 5.0) <= 1e-6 and \
                    abs(p_['loc'] + p_['b'] * p_['scale'] - 35.0) <= 1e-6
                if not ok_:
                    r.violation(f'C05:gm:prototype-options:{form}', f'GaussianMultivariate(distribution=Shifted(-5.0)) on table {t}: '
                                f'column {c!r} is modelled by {type(u).__name__} with parameters {p_}', case=case)
                    break
        except Exception as e:
            r.violation(f'C05:gm:fit-raises:{form}', f'GaussianMultivariate(distribution=Shifted(-5.0)): fit raised '
                        f'{type(e).__name__}: {e}', case=case)
        r.hit(f'gm:{form}')
        r['sample'] = {'form': form, 'table': t}
        return r
    if form.startswith('same-class-name-strings'):
        # two qualified names that end in the same class name are two different distributions, whichever is looked up first
        lib, mine = 'copulas.univariate.gaussian.GaussianUnivariate', 'mc.boom.GaussianUnivariate'
        conf = {c0: lib, c1: mine, c2: lib} if not form.endswith('reversed') else {c0: mine, c1: lib, c2: mine}
        gmn = GaussianMultivariate(distribution=conf)
        r.tr()
        r.ev()
        try:
            gmn.fit(df.copy())
            mods = [type(u).__module__ + '.' + type(u).__name__ for u in gmn.univariates]
            want = [conf[c] for c in cols]
            if mods != want:
                r.violation(f'C05:gm:column-type:{form}', f'GaussianMultivariate(distribution={conf}) on table {t}: columns are '
                            f'modelled by {mods}, configured {want}', case=case)
        except Exception as e:
            r.violation(f'C05:gm:fit-raises:{form}', f'GaussianMultivariate(distribution={conf}): fit raised '
                        f'{type(e).__name__}: {e}', case=case)
        r.hit(f'gm:{form}')
        r['sample'] = {'form': form, 'table': t}
        return r
    if form == 'wrapper-selection-sample':
        # a selecting wrapper that looks at a subsample, on a table whose row index is not 0..n-1
        tdf = df.copy()
        tdf.index = pd.Index(np.argsort((np.arange(len(tdf)) * 7919) % len(tdf), kind='stable') + 1000)
        proto = U.Univariate(candidates=[U.GammaUnivariate, U.UniformUnivariate, U.BetaUnivariate], selection_sample_size=25)
        for kw_ in ({}, {'random_state': 3}):
            gmw = GaussianMultivariate(distribution=proto, **kw_)
            r.tr()
            r.ev()
            gmw.fit(tdf.copy())
            tps = [u.to_dict()['type'].rsplit('.', 1)[1] for u in gmw.univariates]
            if not set(tps) <= {'GammaUnivariate', 'UniformUnivariate', 'BetaUnivariate'}:
                r.violation(f'C05:gm:column-type:{form}', f'GaussianMultivariate(distribution=Univariate(candidates=[Gamma, Uniform, '
                            f'Beta], selection_sample_size=25)) on a table with a non-default index models its columns by {tps}',
                            case=case)
                break
        r.hit(f'gm:{form}')
        r['sample'] = {'form': form, 'table': t}
        return r
    fitted_proto = U.GaussianKDE(bw_method=0.5)
    fitted_proto.fit(np.linspace(0, 1, 9))
    dist = {
        'default': None,
        'class': U.GammaUnivariate,
        'name': 'copulas.univariate.gaussian_kde.GaussianKDE',
        'instance': U.GaussianKDE(bw_method=0.5),
        'instance-no-args': U.GammaUnivariate(),
        'fitted-instance': fitted_proto,
        'instance-positional': U.TruncatedGaussian(0.0, 12.0),
        'instance-one-bound': U.TruncatedGaussian(minimum=-2.5),
        'wrapper-positional': {c1: U.Univariate([U.GammaUnivariate, U.UniformUnivariate])},
        'dict-all': {c0: U.GaussianUnivariate, c1: U.GammaUnivariate, c2: U.UniformUnivariate},
        'dict-subset': {c1: U.BetaUnivariate},
        'dict-mixed': {c0: 'copulas.univariate.uniform.UniformUnivariate', c1: U.GaussianKDE(bw_method='silverman'),
                       c2: U.StudentTUnivariate},
        'boom-class': Boom,
        'boom-name': 'mc.boom.Boom',
        'boom-instance': Boom(),
        'boom-dict': {c1: Boom, c2: U.UniformUnivariate},
    }[form]
    kw = {'random_state': 5} if case[0] == 'gm-seeded' else {}
    gm = GaussianMultivariate(**kw) if dist is None else GaussianMultivariate(distribution=dist, **kw)
    tag = f'GaussianMultivariate(distribution={form}{", random_state=5" if kw else ""}) on table {t}'
    r.tr()
    r.ev()
    try:
        gm.fit(df.copy())
    except Exception as e:
        r.violation(f'C05:gm:fit-raises:{form}', f'{tag}: fit raised {type(e).__name__}: {e}', case=case)
        return r
    types = [u.to_dict()['type'].rsplit('.', 1)[1] for u in gm.univariates]
    r.outcome(f'{form}:{"/".join(types)}')

    def expect(col, allowed, why):
        got = types[cols.index(col)]
        if got not in allowed:
            r.violation(f'C05:gm:column-type:{form}', f'{tag}: column {col!r} is modelled by {got}, expected {sorted(allowed)} '
                        f'({why})', case=case, types=types)
            return False
        return True

    def expect_gaussian_fallback(col):
        if expect(col, {'GaussianUnivariate'}, 'fallback for a distribution that cannot be fitted'):
            p = gm.univariates[cols.index(col)].to_dict()
            x = df[col].to_numpy()
            if not (abs(p['loc'] - x.mean()) <= 1e-12 * max(1, abs(x.mean())) and abs(p['scale'] - x.std()) <= 1e-12 * x.std()):
                r.violation(f'C05:gm:fallback-params:{form}', f'{tag}: fallback Gaussian for {col!r} has loc={p["loc"]!r}, '
                            f'scale={p["scale"]!r}', case=case)

    def kde_bw(col, bw):
        u = gm.univariates[cols.index(col)]
        x = df[col].to_numpy()
        pts = np.linspace(x.min(), x.max(), 9)
        got = np.asarray(u.probability_density(pts), float)
        ref = refkde.pdf(pts, x, bw)
        if not np.allclose(got, ref, rtol=1e-8, atol=0):
            r.violation(f'C05:gm:prototype-options:{form}', f'{tag}: column {col!r} KDE does not use bw_method={bw!r} of the '
                        f'prototype', case=case)

    def expect_default(c):
        """Unnamed / default columns use the default selection: min-KS over all 8 families."""
        if not expect(c, set(ALL8), 'default selection'):
            return
        x = df[c]              # same container as GaussianMultivariate hands to the marginal (a Series: TruncatedGaussian
        #                        starts its optimiser from X.std(), which is ddof=1 for a Series and ddof=0 for an array)
        refs = {k: _ref_ks(x, _cls(k)) for k in ALL8}
        fit = {k: v for k, v in refs.items() if np.isfinite(v)}
        mine = ks_stat(x, gm.univariates[cols.index(c)].cdf)
        r.tr(len(ALL8))
        if not mine <= min(fit.values()) + 1e-12:
            r.violation(f'C05:gm:default-not-min-ks:{form}', f'{tag}: default column {c!r} is modelled by '
                        f'{types[cols.index(c)]} with KS={mine:.5f}, the best candidate '
                        f'{min(fit, key=fit.get)} has {min(fit.values()):.5f}', case=case)

    if form == 'default':
        for c in cols:
            expect_default(c)
    elif form == 'class':
        for c in cols:
            expect(c, {'GammaUnivariate'}, 'class for all columns')
    elif form == 'name':
        for c in cols:
            if expect(c, {'GaussianKDE'}, 'qualified name for all columns'):
                kde_bw(c, None)
    elif form == 'instance-no-args':
        for c in cols:
            expect(c, {'GammaUnivariate'}, 'instance prototype of a class without stored constructor arguments')
        us = gm.univariates
        if len({id(u) for u in us}) != len(us) or any(u is dist for u in us) or getattr(dist, 'fitted', False):
            r.violation(f'C05:gm:shared-instance:{form}', f'{tag}: columns share one univariate object / the prototype itself was '
                        f'fitted', case=case)
        else:
            for c in cols:
                x_ = df[c].to_numpy(dtype=float)
                ref_ = U.GammaUnivariate()
                ref_.fit(x_.copy())
                pts_ = np.quantile(x_, [0.1, 0.5, 0.9])
                if not np.allclose(np.asarray(gm.univariates[cols.index(c)].cdf(pts_), float), np.asarray(ref_.cdf(pts_), float),
                                   rtol=1e-9, atol=1e-12):
                    r.violation(f'C05:gm:prototype-options:{form}', f'{tag}: the marginal of column {c!r} is not a Gamma fitted to '
                                f'that column', case=case)
    elif form in ('instance', 'fitted-instance'):
        for c in cols:
            if expect(c, {'GaussianKDE'}, 'instance prototype for all columns'):
                kde_bw(c, 0.5)
        us = gm.univariates
        if len({id(u) for u in us}) != len(us) or any(u is dist for u in us):
            r.violation(f'C05:gm:shared-instance:{form}', f'{tag}: columns share one univariate object / the prototype',
                        case=case)
        if form == 'fitted-instance':
            # the prototype itself must be untouched by the fit
            if not np.array_equal(np.asarray(dist.to_dict()['dataset']), np.linspace(0, 1, 9)):
                r.violation(f'C05:gm:prototype-modified:{form}', f'{tag}: the fitted prototype was refitted', case=case)
    elif form == 'instance-positional':
        for c in cols:
            if expect(c, {'TruncatedGaussian'}, 'instance prototype'):
                p = gm.univariates[cols.index(c)].to_dict()
                lo, hi = p['loc'] + p['a'] * p['scale'], p['loc'] + p['b'] * p['scale']
                if not (abs(lo - 0.0) <= 1e-6 and abs(hi - 12.0) <= 1e-6):
                    r.violation(f'C05:gm:prototype-options:{form}', f'{tag}: column {c!r} has support [{lo!r},{hi!r}], the '
                                f'prototype was TruncatedGaussian(0.0, 12.0)', case=case)
    elif form == 'instance-one-bound':
        for c in cols:
            if expect(c, {'TruncatedGaussian'}, 'instance prototype with only a lower bound'):
                p = gm.univariates[cols.index(c)].to_dict()
                lo, hi = p['loc'] + p['a'] * p['scale'], p['loc'] + p['b'] * p['scale']
                xmax = float(df[c].max())
                if not (abs(lo + 2.5) <= 1e-6 and abs(hi - xmax) <= 1e-5 * max(1, abs(xmax))):
                    r.violation(f'C05:gm:prototype-options:{form}', f'{tag}: column {c!r} has support [{lo!r},{hi!r}], the '
                                f'prototype was TruncatedGaussian(minimum=-2.5) and the data maximum is {xmax!r}', case=case)
    elif form == 'wrapper-positional':
        expect(c1, {'GammaUnivariate', 'UniformUnivariate'}, 'Univariate([Gamma, Uniform]) prototype')
        expect_default(c0)
        expect_default(c2)
    elif form == 'dict-all':
        expect(c0, {'GaussianUnivariate'}, 'dict')
        expect(c1, {'GammaUnivariate'}, 'dict')
        expect(c2, {'UniformUnivariate'}, 'dict')
    elif form == 'dict-subset':
        expect(c1, {'BetaUnivariate'}, 'dict')
        for c in (c0, c2):
            expect_default(c)
    elif form == 'dict-mixed':
        expect(c0, {'UniformUnivariate'}, 'dict name')
        if expect(c1, {'GaussianKDE'}, 'dict instance'):
            kde_bw(c1, 'silverman')
        expect(c2, {'StudentTUnivariate'}, 'dict class')
    elif form in ('boom-class', 'boom-name', 'boom-instance'):
        for c in cols:
            expect_gaussian_fallback(c)
    elif form == 'boom-dict':
        expect_gaussian_fallback(c1)
        expect(c2, {'UniformUnivariate'}, 'dict')
        expect_default(c0)
    # the model is usable
    try:
        np.random.seed(1)
        s = gm.sample(5)
        if list(s.columns) != cols or len(s) != 5 or s.isna().any().any():
            r.violation(f'C05:gm:sample:{form}', f'{tag}: sample(5) has columns {list(s.columns)}, {len(s)} rows', case=case)
    except Exception as e:
        r.violation(f'C05:gm:sample-raises:{form}', f'{tag}: sample raised {type(e).__name__}: {e}', case=case)
    r.hit(f'gm:{form}')
    r['sample'] = {'form': form, 'table': t, 'column_types': types}
    return r


def finish(agg, tier):
    engine.require(agg['hits'].get('lists-with-failing-candidate', 0) >= 72 * 20, 'explicit lists under-explored')
    for f in GM_FORMS:
        engine.require(agg['hits'].get(f'gm:{f}', 0) >= 1 or any(f in v['sig'] for v in agg['viol']),
                       f'multivariate form {f} not reached')
    sel = {k for k in agg['outcomes'] if k in ALL8}
    engine.require(len(sel) >= 5, f'selection outcomes collapsed to {sorted(sel)}')
