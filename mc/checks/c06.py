"""C06 - Clayton, Frank and Gumbel CDFs are genuine Archimedean copulas.

Explorer E1 (product alphabet): family x theta alphabet x (grid U boundary)^2 x batch layouts.
Oracle: mpmath generator construction + copula axioms + the library's own generator identity.
"""
import numpy as np

from mc import alphabets as A
from mc import engine
from mc.lib import grid_pairs, make_biv

PROPERTY = 'C06'
LEVEL = 'exploration'
ENGINE = 'E1-product-explorer'
ENGINES = ('E1-product-explorer', 'E2-sequence-explorer')
TECHNIQUE = ('bounded-exhaustive enumeration of family x theta x (u,v)-grid x batch-layout alphabet against an '
             'mpmath generator-construction reference model (explicit-state, no sampling)')
LEVEL_TEXT = ('every (family, theta, u, v, layout) of the stated finite alphabet is executed on the real code and '
              'compared with the generator construction and the copula axioms; all grid rectangles are checked '
              'for non-negative volume. Values between grid points are covered only by continuity of the closed '
              'forms, so this is exploration, not proof.')
LEVEL_NOTE = 'trusted: mpmath, numpy elementwise kernels; alphabet and tolerances as in DESIGN.md C06'
RULE = ('every (family, theta) of the tier alphabet x every (u,v) of (grid U {0,1e-12,1-1e-12,1})^2, '
        'each evaluated in 5 batch layouts (alone, full, reversed, tiled>=1000, boundary-first); a point '
        'is non-trivial when 0<u,v<1; distinct = distinct (family,theta,u,v)')
ASSUMPTIONS = ['mpmath 40-digit arithmetic', 'numpy elementwise kernels are lane-independent to 1e-13',
               'alphabet: |tau|<=0.8 thetas of DESIGN.md section 5']

TOL_REF = 1e-9
# Frank's closed form evaluates log(1 + x) with x within 1e-7 of -1 for |theta| >= 10: the float64
# conditioning of the documented formula is ~1e-10 absolute (measured 2.4e-10 at theta=18.2).
TOL_AXIOM_BY_FAMILY = {'clayton': 1e-12, 'gumbel': 1e-12, 'frank': 2e-9}
TOL_BATCH = 1e-13


def bounds(tier):
    g = A.tier_grid(tier)
    return {'grid_points_per_axis': len(g) + len(A.BOUNDARY),
            'thetas': {k: len(v) for k, v in A.THETAS[tier].items()}}


def cases(tier, seed):
    out = []
    for fam, ths in A.THETAS[tier].items():
        ths = sorted(ths)
        for i, th in enumerate(ths):
            nxt = ths[i + 1] if i + 1 < len(ths) else None
            out.append((fam, th, nxt, tier))
        out.append((fam, 'history', None, tier))
    return out


def run_case(case):
    r = engine.new_result()
    try:
        return _run_case(case, r)
    except Exception as e:
        if type(e).__name__ == 'LibraryRaised':
            return r
        raise


def _run_case(case, r):
    from mc.ref.archimedean import Ref
    fam, th, nxt, tier = case
    if th == 'history':
        from mc.lib import history_walk
        g = sorted(set(A.tier_grid(tier) + A.BOUNDARY))
        history_walk(r, fam, sorted(A.THETAS[tier][fam]), ['cumulative_distribution'], grid_pairs(g),
                     f'C06:{fam}', case)
        r.outcome(f'{fam}:history')
        return r
    g = sorted(set(A.tier_grid(tier) + A.BOUNDARY + A.TINY + A.NEAR))
    m = len(g)
    P = grid_pairs(g)
    cop = make_biv(fam, th)
    ref = Ref(fam, th)
    sig = f'C06:{fam}'
    r.hit(f'family:{fam}')
    TOL_AXIOM = TOL_AXIOM_BY_FAMILY[fam]

    class LibraryRaised(Exception):
        pass

    def cdf(X):
        r.tr()
        X = np.array(X, dtype=float)
        try:
            return np.asarray(cop.cumulative_distribution(X), dtype=float)
        except Exception as e:          # every point of the closed unit square is a valid argument
            r.violation(f'{sig}:cdf-raises:{type(e).__name__}', f'{fam} theta={th}: cumulative_distribution raised '
                        f'{type(e).__name__}: {e} on a batch of {len(X)} points of the unit square (first row {X[0].tolist()})',
                        case=case)
            raise LibraryRaised()

    # ---- layouts -------------------------------------------------------------------------------
    alone = np.array([cdf(P[i:i + 1])[0] for i in range(len(P))])
    full = cdf(P)
    rev = cdf(P[::-1])[::-1]
    k = -(-1000 // len(P))
    tiled = cdf(np.tile(P, (k, 1))).reshape(k, len(P))
    zero_first = np.vstack([[[0.0, 0.3], [0.3, 0.0], [0.0, 0.0]], P])
    zf = cdf(zero_first)[3:]
    # the SAME array object evaluated twice: the call must not edit its argument, so both answers agree
    same = np.array(P, dtype=float)
    r.tr(2)
    first_ans = np.asarray(cop.cumulative_distribution(same), float)
    second_ans = np.asarray(cop.cumulative_distribution(same), float)
    if not np.array_equal(same, P) or not np.array_equal(first_ans, second_ans, equal_nan=True):
        r.violation(f'{sig}:argument-reuse', f'{fam} theta={th}: cumulative_distribution '
                    f'{"modified its argument" if not np.array_equal(same, P) else "answers differently the second time"} '
                    f'when the same array object is evaluated twice', case=case)
    # a read-only batch (what DataFrame.to_numpy() hands out under copy-on-write, np.broadcast_to, a memory map): same answer
    ro = np.array(P, dtype=float)
    ro.flags.writeable = False
    r.tr()
    try:
        ans_ro = np.asarray(cop.cumulative_distribution(ro), float)
        if not np.array_equal(ans_ro, first_ans, equal_nan=True):
            r.violation(f'{sig}:read-only-input', f'{fam} theta={th}: cumulative_distribution of a read-only array differs from the '
                        f'same values in a writeable array', case=case)
    except Exception as e:
        r.violation(f'{sig}:read-only-input:raises', f'{fam} theta={th}: cumulative_distribution of a read-only array raised '
                    f'{type(e).__name__}: {e}', case=case)
    # ... and the same array object REFILLED in place between two calls: the answer is a function of the values; the array
    # returned by the earlier call must not be rewritten by the later one
    kept = np.array(second_ans, float)
    same[:] = P[::-1]
    r.tr()
    refilled = np.asarray(cop.cumulative_distribution(same), float)[::-1]
    if not np.array_equal(second_ans, kept, equal_nan=True):
        r.violation(f'{sig}:result-rewritten-by-later-call', f'{fam} theta={th}: the array returned by cumulative_distribution '
                    f'changed when it was called again on the same copula', case=case)
    r.ev(len(P) * (5 + k))
    for name, arr in (('full', full), ('reversed', rev), ('boundary-first', zf), ('same-object-refilled-in-place', refilled)) + \
            tuple((f'tile{j}', tiled[j]) for j in (0, k - 1)):
        bad = np.nonzero(~((np.abs(arr - alone) <= TOL_BATCH * np.maximum(1, np.abs(alone))) |
                           (np.isnan(arr) & np.isnan(alone))))[0]
        if len(bad):
            i = int(bad[0])
            r.violation(f'{sig}:batch-dependence', f'{fam} theta={th}: row {P[i].tolist()} gives '
                        f'{arr[i]!r} in layout {name} but {alone[i]!r} alone', case=case,
                        layout=name, n_bad=len(bad))
            break
    if not np.all(np.isfinite(alone)):
        i = int(np.nonzero(~np.isfinite(alone))[0][0])
        r.violation(f'{sig}:non-finite', f'{fam} theta={th}: C{tuple(P[i])}={alone[i]}', case=case)
        return r
    M = alone.reshape(m, m)  # M[i, j] = C(g[i], g[j])
    gu = np.asarray(g)

    # ---- axioms --------------------------------------------------------------------------------
    def axiom(name, ok, val, exp, pts):
        if not np.all(ok):
            i = int(np.nonzero(~ok)[0][0])
            r.violation(f'{sig}:{name}', f'{fam} theta={th}: {name} fails at {pts[i]}: got '
                        f'{float(val[i])!r}, expected {float(exp[i])!r}', case=case)

    z = np.zeros(m)
    axiom('grounded', np.abs(M[:, 0]) <= TOL_AXIOM, M[:, 0], z, [(u, 0.0) for u in g])
    axiom('grounded', np.abs(M[0, :]) <= TOL_AXIOM, M[0, :], z, [(0.0, v) for v in g])
    axiom('uniform-margin', np.abs(M[:, -1] - gu) <= TOL_AXIOM, M[:, -1], gu, [(u, 1.0) for u in g])
    axiom('uniform-margin', np.abs(M[-1, :] - gu) <= TOL_AXIOM, M[-1, :], gu, [(1.0, v) for v in g])
    lo = np.maximum(P[:, 0] + P[:, 1] - 1, 0)
    hi = np.minimum(P[:, 0], P[:, 1])
    axiom('frechet-lower', alone >= lo - TOL_AXIOM, alone, lo, P.tolist())
    axiom('frechet-upper', alone <= hi + TOL_AXIOM, alone, hi, P.tolist())
    axiom('symmetry', np.abs(M - M.T).ravel() <= max(1e-13, TOL_AXIOM / 10), M.ravel(), M.T.ravel(), P.tolist())
    r.ev(6 * len(P))

    # ---- reference construction ----------------------------------------------------------------
    refv = np.array([float(ref.C(u, v)) for u, v in P])
    err = np.abs(alone - refv)
    axiom('generator-construction', err <= TOL_REF, alone, refv, P.tolist())
    r.ev(len(P))
    r.add('ref_compared', len(P))

    # ---- rectangle volumes (all grid rectangles from one CDF matrix) -----------------------------
    iu, ju = np.triu_indices(m, 1)
    # D[a, :] = M[ju[a], :] - M[iu[a], :]  (difference over u), then over v
    D = M[ju, :] - M[iu, :]
    Vv = D[:, ju] - D[:, iu]
    r.ev(Vv.size)
    r.add('rectangles', int(Vv.size))
    if Vv.min() < -TOL_AXIOM:
        a, b = np.unravel_index(np.argmin(Vv), Vv.shape)
        r.violation(f'{sig}:negative-volume', f'{fam} theta={th}: rectangle [{g[iu[a]]},{g[ju[a]]}]x'
                    f'[{g[iu[b]]},{g[ju[b]]}] has C-volume {Vv.min()!r}', case=case)

    # ---- library generator identity --------------------------------------------------------------
    interior = (P[:, 0] > 0) & (P[:, 0] < 1) & (P[:, 1] > 0) & (P[:, 1] < 1)
    Pi = P[interior]
    with np.errstate(all='ignore'):
        g1 = float(np.asarray(cop.generator(np.array([1.0])))[0])
        gi = np.asarray(cop.generator(np.asarray([x for x in g if 0 <= x <= 1])), float)     # generator(0) = +inf included
        lhs = np.asarray(cop.generator(alone[interior]), float)
        rhs = np.asarray(cop.generator(Pi[:, 0]), float) + np.asarray(cop.generator(Pi[:, 1]), float)
        g_alone = np.array([float(np.asarray(cop.generator(np.array([x_])))[0]) for x_ in g if 0 <= x_ <= 1])
    r.tr(5 + len(g_alone))
    if not np.array_equal(gi, g_alone, equal_nan=True):
        j = int(np.nonzero(~((gi == g_alone) | (np.isnan(gi) & np.isnan(g_alone))))[0][0])
        r.violation(f'{sig}:generator-batch-dependence', f'{fam} theta={th}: generator of a grid containing 0 gives {gi[j]!r} at '
                    f't={[x_ for x_ in g if 0 <= x_ <= 1][j]!r}, {g_alone[j]!r} when that point is evaluated alone', case=case)
    try:
        e_ = np.asarray(cop.cumulative_distribution(np.empty((0, 2))), float)
        if e_.shape != (0,):
            r.violation(f'{sig}:empty-batch', f'{fam} theta={th}: cumulative_distribution of zero rows has shape {e_.shape}', case=case)
    except Exception as e:
        r.violation(f'{sig}:empty-batch:raises', f'{fam} theta={th}: cumulative_distribution of zero rows raised '
                    f'{type(e).__name__}: {e}', case=case)
    if not abs(g1) <= 1e-12:
        r.violation(f'{sig}:generator-at-1', f'{fam} theta={th}: generator(1)={g1!r}', case=case)
    with np.errstate(all='ignore'):
        steps = np.where(np.isinf(gi[:-1]) & (gi[:-1] > 0), -np.inf, np.diff(gi))          # +inf -> anything is a decrease
    if np.isnan(gi).any() or not np.all(steps <= 1e-12 * np.maximum(1, np.abs(np.where(np.isfinite(gi[:-1]), gi[:-1], 1.0)))):
        r.violation(f'{sig}:generator-not-decreasing', f'{fam} theta={th}: generator increases on grid',
                    case=case)
    # the identity is compared where phi is well conditioned: C not within 1e-6 of 0 or 1
    wc = (alone[interior] > 1e-6) & (Pi.max(axis=1) < 1 - 1e-6) & np.isfinite(lhs) & np.isfinite(rhs)
    gen_err = np.abs(lhs - rhs)[wc] / np.maximum(1.0, np.abs(rhs[wc]))
    r.ev(int(wc.sum()))
    r.add('generator_identity_points', int(wc.sum()))
    if gen_err.size and gen_err.max() > 1e-6:
        i = int(np.argmax(gen_err))
        r.violation(f'{sig}:generator-identity', f'{fam} theta={th}: generator(C(u,v)) != generator(u)+'
                    f'generator(v) at {Pi[wc][i].tolist()}: {lhs[wc][i]!r} vs {rhs[wc][i]!r}', case=case)

    # ---- ordering in theta -----------------------------------------------------------------------
    if nxt is not None:
        cop2 = make_biv(fam, nxt)
        r.tr()
        nx = np.asarray(cop2.cumulative_distribution(P), float)
        r.ev(len(P))
        bad = nx < full - TOL_AXIOM
        if bad.any():
            i = int(np.nonzero(bad)[0][0])
            r.violation(f'{sig}:theta-ordering', f'{fam}: C_theta={nxt} < C_theta={th} at {P[i].tolist()}: '
                        f'{nx[i]!r} < {full[i]!r}', case=case)
        r.hit('theta-ordering-pairs')

    for u, v in P:
        r.state((fam, th, float(u), float(v)))
    r.nontriv(int(interior.sum()))
    if (fam == 'gumbel' and th == 1.0):
        r.hit('branch:gumbel-theta-1')
    r.outcome(f'{fam}:max_ref_err<={10.0 ** np.ceil(np.log10(max(err.max(), 1e-18))):.0e}')
    r['extra']['max_ref_err'] = float(err.max())
    r['sample'] = {'family': fam, 'theta': th, 'point': P[len(P) // 2].tolist(),
                   'lib': float(alone[len(P) // 2]), 'ref': float(refv[len(P) // 2])}
    return r


def finish(agg, tier):
    for fam in ('clayton', 'gumbel', 'frank'):
        engine.require(agg['hits'].get(f'family:{fam}', 0) >= 6, f'family {fam} under-explored')
    engine.require(agg['hits'].get('branch:gumbel-theta-1', 0) >= 1, 'Gumbel theta=1 branch not reached')
    engine.require(agg['extra'].get('rectangles', 0) > 1e5, 'rectangle volumes not enumerated')
    engine.require(agg['hits'].get('history-cases', 0) == 3, 'history cases missing')
