"""C13 - Gaussian-copula density/CDF equal the normal-score MVN, in any representation.

E1: fitted models x query points x containers (DataFrame in EVERY column permutation, extra columns, Series,
2-D and 1-D arrays) x batch layouts. Oracle: reference MVN log-density by Cholesky at reference normal scores,
bivariate/trivariate normal CDF by nested quadrature, monotone chains.
"""
import itertools

import numpy as np
import pandas as pd
from scipy import stats

from mc import alphabets as A
from mc import engine, tables
from mc.ref import mvn

PROPERTY = 'C13'
LEVEL = 'exploration'
ENGINE = 'E1-product-explorer'
TECHNIQUE = ('bounded-exhaustive enumeration of fitted models x query points x containers (every column permutation of a '
             'DataFrame, extra columns, Series, 2-D/1-D arrays) x batch layouts; oracle = Cholesky MVN density at reference '
             'normal scores and nested-quadrature bivariate/trivariate normal CDF')
LEVEL_TEXT = ('every (model, query set, container, permutation, layout) of the alphabet is evaluated by the real code and '
              'compared with the reference; all d! column orders are enumerated for d<=4 (5). Models and points outside the '
              'alphabet are not enumerated: exploration.')
LEVEL_NOTE = ('trusted: numpy Cholesky/solve, scipy.special.ndtr, own adaptive quadrature; scipy multivariate_normal is NOT '
              'trusted (its d>=3 CDF is randomised QMC with abseps 1e-5: tolerance 2e-4, global generator seeded per call)')
RULE = ('models (table zoo, cond(correlation)<=1e8, configs gaussian/default/kde) x {12 training rows, column extremes, far '
        'points, 2 monotone chains} x {all d! permutations, extra columns, Series, ndarray 2-D/1-D} x {alone, full, reversed, '
        'tiled 1000}; non-trivial = every model; distinct = distinct (model, container, permutation)')
ASSUMPTIONS = ['near-singular models are excluded from the CDF part (scipy raises LinAlgError there); they are covered by C02']

EPS = A.EPS32
CONFIGS = ('gaussian-class', 'default', 'kde-instance', 'dict', 'kde-wide-instance')


def _tables(tier):
    out = []
    for t in tables.table_zoo(tier):
        d, design, mix, consts, n, names = t
        if consts or design == 'near-singular' or d > (4 if tier == 'quick' else 5) or n > 300:
            continue
        out.append(t)
    return out


def bounds(tier):
    return {'models': len(_tables(tier)) * len(CONFIGS), 'permutations': 'all d! for every model'}


def prefork():
    for d in (2, 3, 4, 5, 6):
        for n in (31, 301):
            A.korobov_generator(n, d)


def cases(tier, seed):
    out = [(t, cfg, seed, 'fresh', tier) for cfg in CONFIGS for t in _tables(tier)]
    # E2 layer: the same object was fitted, queried (pdf, cdf, log pdf) on a differently dependent table, then re-fitted
    out += [(t, 'gaussian-class', seed, 'refit', tier) for t in _tables(tier)]
    # models whose fit had to regularise a singular correlation (duplicated / affinely related columns, fewer rows than
    # columns): density and CDF are those of model.correlation as fitted - nothing is regularised a second time
    for name in SINGULAR_TABLES:
        for cfg in ('gaussian-class', 'default'):
            out.append((('struct', name), cfg, seed, 'singular', tier))
    out.sort(key=lambda c: (c[1] != 'default', -c[0][0] if isinstance(c[0][0], int) else 0))
    return out


def _almost_affine():
    n = 60
    P = A.lattice(n + 1, 3)[1:]
    Z = stats.norm.ppf(P)
    x = Z[:, 0]
    return pd.DataFrame({'x': x, 'ax': 3 * x + 1 + 1e-6 * Z[:, 1], 'y': 0.4 * x + Z[:, 2]})


SINGULAR_TABLES = ('dup(x,x,y)', 'affine(x,3x+1)', 'dup-after-unrelated(a,b,c,b)', 'anti(x,-x,y)', 'two-rows', 'three-rows',
                   'almost-affine(x,3x+1+1e-6*noise,y)', 'one-const', 'all-but-one-const')


def _singular(r, case):
    (_, name), cfg = case[0], case[1]
    df = _almost_affine() if name.startswith('almost-affine') else tables.structural_tables()[name]
    cols = list(df.columns)
    tag = f'structural table {name}, config {cfg}'
    r.tr()
    r.nontriv()
    r.state(('singular', name, cfg))
    try:
        gm = tables.fit_gm(df, cfg)
    except Exception as e:
        r.violation(f'C13:fit-raises:{type(e).__name__}', f'{tag}: fit raised {type(e).__name__}: {e}', case=case)
        return r
    C = np.asarray(gm.correlation.to_numpy(), float)
    X = df.to_numpy(dtype=float)
    Q = X[np.linspace(0, len(X) - 1, min(len(X), 9)).astype(int)]
    S = ref_scores(gm, cols, Q)
    try:
        lp_ref = mvn.logpdf(S, C)
    except np.linalg.LinAlgError:
        lp_ref = None
    try:
        with np.errstate(all='ignore'):
            p = np.asarray(gm.probability_density(pd.DataFrame(Q, columns=cols)), float)
    except Exception as e:
        r.violation(f'C13:singular:pdf-raises:{type(e).__name__}', f'{tag}: probability_density raised {type(e).__name__}: {e}', case=case)
        return r
    try:
        with np.errstate(all='ignore'):
            lp = np.asarray(gm.log_probability_density(pd.DataFrame(Q, columns=cols)), float)
    except Exception as e:
        r.violation(f'C13:singular:logpdf-raises:{type(e).__name__}', f'{tag} (cond(correlation) = {np.linalg.cond(C):.2e}): '
                    f'probability_density is defined but log_probability_density raised {type(e).__name__}: {e}', case=case)
        return r
    if lp_ref is None or np.linalg.cond(C) > 1e9:
        pos = p > 0
        if p.shape != lp.shape or not np.allclose(np.log(p[pos]), lp[pos], rtol=1e-9, atol=1e-9):
            r.violation('C13:logpdf', f'{tag}: log_probability_density != log(probability_density)', case=case)
        r.outcome('singular:reference-not-defined')
        r.hit('singular')
        return r
    r.tr(2)
    r.ev(2 * len(Q))
    # cond(C) ~ 1e7: the quadratic form amplifies the last bits of the scores, hence 1e-5 (a second regularisation moves the
    # log density by log(sqrt 2) = 0.35 per collinear pair)
    tol = 1e-5 * np.maximum(1, np.abs(lp_ref))
    fin = np.isfinite(lp_ref) & (lp_ref > -700)          # below that the density underflows and its log is -inf
    if lp.shape != lp_ref.shape or not np.all(np.abs(lp[fin] - lp_ref[fin]) <= tol[fin]):
        i = int(np.argmax(np.where(fin, np.abs(lp - lp_ref), 0))) if lp.shape == lp_ref.shape else 0
        r.violation('C13:singular:logpdf-value', f'{tag} (cond(correlation) = {np.linalg.cond(C):.2e}): log_probability_density of '
                    f'training row {Q[i].tolist()} = {lp[i] if lp.shape == lp_ref.shape else lp.shape!r} but the MVN log density '
                    f'with model.correlation is {lp_ref[i]!r}', case=case)
    pos = p > 0
    if p.shape != lp.shape or not np.allclose(np.log(p[pos]), lp[pos], rtol=1e-9, atol=1e-9):
        r.violation('C13:logpdf', f'{tag}: log_probability_density != log(probability_density)', case=case)
    dead = np.isfinite(lp_ref) & (lp_ref < -800)          # the MVN density with model.correlation is below every float there
    if dead.any() and np.any(p[dead] > 1e-300):
        i = int(np.nonzero(dead & (p > 1e-300))[0][0])
        r.violation('C13:singular:pdf-value', f'{tag}: probability_density of training row {Q[i].tolist()} = {p[i]!r} but the MVN '
                    f'density with model.correlation is exp({lp_ref[i]!r}) = 0', case=case)
    if C.shape[0] == 2:
        np.random.seed(7)
        try:
            c0 = np.asarray(gm.cumulative_distribution(pd.DataFrame(Q, columns=cols)), float)
            ref = np.array([mvn.cdf2(S[i, 0], S[i, 1], float(np.clip(C[0, 1] / np.sqrt(C[0, 0] * C[1, 1]), -1 + 1e-12, 1 - 1e-12)))
                            for i in range(len(Q))])
            r.tr()
            r.ev(len(Q))
            # scipy's integration of a nearly singular bivariate normal is itself only good to ~1e-4
            if not np.all(np.abs(c0 - ref) <= 5e-4):
                i = int(np.argmax(np.abs(c0 - ref)))
                r.violation('C13:singular:cdf-value', f'{tag}: cumulative_distribution(row {Q[i].tolist()}) = {c0[i]!r}, the normal '
                            f'CDF at the scores is {ref[i]!r}', case=case)
        except Exception as e:
            r.violation(f'C13:cdf-raises:{type(e).__name__}', f'{tag}: cumulative_distribution raised {type(e).__name__}: {e}',
                        case=case)
    r.hit('singular')
    r['sample'] = {'table': name, 'config': cfg, 'cond': float(np.linalg.cond(C))}
    return r


def ref_scores(gm, cols, X):
    """X: array (m, d) in training column order."""
    S = []
    for j, u in enumerate(gm.univariates):
        S.append(stats.norm.ppf(np.clip(np.asarray(u.cdf(X[:, j]), float), EPS, 1 - EPS)))
    return np.column_stack(S)


def run_case(case):
    t, cfg, seed, hist = case[:4]
    tier = case[4] if len(case) > 4 else 'quick'
    r = engine.new_result()
    if hist == 'singular':
        return _singular(r, case)
    r.state((t, cfg, hist))
    r.nontriv()
    df, info = tables.gaussian_copula_table(t, A.shift_from_seed(seed))
    cols = list(df.columns)
    d = len(cols)
    tag = f'table {t}, config {cfg}' + (' (object previously fitted and queried on another table)' if hist == 'refit' else '')
    r.tr()
    if hist == 'refit':
        other = (t[0], 'equi+' if t[1] != 'equi+' else 'ar1', 'normal', t[3], 30, t[5])
        df0, _ = tables.gaussian_copula_table(other)
        gm = tables.fit_gm(df0, cfg)
        gm.probability_density(df0.iloc[:3])
        gm.log_probability_density(df0.iloc[:3])
        gm.cumulative_distribution(df0.iloc[:2])
        gm.fit(df.copy())
        r.hit('refit-history')
    else:
        gm = tables.fit_gm(df, cfg)
    C = np.asarray(gm.correlation.to_numpy(), float)
    if np.linalg.cond(C) > 1e8:
        r.outcome('skipped-ill-conditioned')
        return r
    X = df.to_numpy(dtype=float)
    lo, hi = X.min(axis=0), X.max(axis=0)
    w = np.where(hi > lo, hi - lo, 1.0)
    rows = [X[i] for i in np.linspace(0, len(X) - 1, 12).astype(int)]
    rows += [lo, hi, lo - 10 * w, hi + 10 * w, np.where(np.arange(d) % 2 == 0, lo - 10 * w, hi + 10 * w),
             lo - 1e6 * w, hi + 1e6 * w]
    chain_a = [lo + f * w for f in (-0.5, 0.0, 0.2, 0.45, 0.7, 1.0, 1.5)]
    chain_b = [np.where(np.arange(d) == 0, lo + f * w, lo + 0.6 * w) for f in (-0.2, 0.1, 0.3, 0.5, 0.7, 0.9, 1.2)]
    Q = np.array(rows + chain_a + chain_b)
    m = len(Q)
    S = ref_scores(gm, cols, Q)
    lp_ref = mvn.logpdf(S, C)
    base_df = pd.DataFrame(Q, columns=cols)

    def pdf_of(obj):
        r.tr()
        return np.asarray(gm.probability_density(obj), float)

    # ---- density against the reference, training-order DataFrame ------------------------------------------
    p0 = pdf_of(base_df.copy())
    r.ev(m)
    if p0.shape != (m,):
        r.violation('C13:pdf-shape', f'{tag}: probability_density of {m} rows returned shape {p0.shape}', case=case)
        return r
    with np.errstate(all='ignore'):
        bad = ~(np.abs(np.log(p0) - lp_ref) <= 1e-9 * np.maximum(1, np.abs(lp_ref)))
    bad &= ~((p0 == 0) & (lp_ref < -700))
    if bad.any():
        i = int(np.nonzero(bad)[0][0])
        r.violation('C13:pdf-value', f'{tag}: probability_density(row {Q[i].tolist()}) = {p0[i]!r} but the MVN density at the '
                    f'normal scores is exp({lp_ref[i]!r})', case=case)
    with np.errstate(all='ignore'):
        lp = np.asarray(gm.log_probability_density(base_df.copy()), float)
    r.tr()
    pos = p0 > 0
    if not np.allclose(lp[pos], np.log(p0[pos]), rtol=1e-12, atol=1e-12):
        r.violation('C13:logpdf', f'{tag}: log_probability_density != log(probability_density)', case=case)

    # ---- representation independence -----------------------------------------------------------------------
    perms = list(itertools.permutations(range(d)))
    for perm in perms:
        pc = [cols[k] for k in perm]
        got = pdf_of(base_df[pc].copy())
        r.ev(m)
        r.state((t, cfg, 'perm', perm))
        if not np.allclose(got, p0, rtol=1e-12, atol=0, equal_nan=True):
            i = int(np.nonzero(~np.isclose(got, p0, rtol=1e-12, atol=0))[0][0])
            r.violation('C13:column-order-dependence', f'{tag}: DataFrame with columns ordered {pc} gives pdf {got[i]!r} for a '
                        f'row whose pdf in training order is {p0[i]!r}', case=case)
            break
    r.add('permutations', len(perms))
    extra = base_df.copy()
    extra.insert(0, 'unrelated_first', np.arange(m) * 1.5)
    extra['unrelated_last'] = -1.0
    variants = {'extra-columns': extra, 'ndarray-2d': Q.copy()}
    for name, obj in variants.items():
        got = pdf_of(obj)
        r.ev(m)
        if not np.allclose(got, p0, rtol=1e-12, atol=0):
            r.violation(f'C13:container-dependence:{name}', f'{tag}: pdf through {name} differs from the DataFrame result',
                        case=case)
    # narrower float types: the density of float32 / float16 query points is the density of those very points (the width of
    # the container's dtype must not leak into the computation)
    for dt in (np.float32, np.float16):
        with np.errstate(all='ignore'):
            Qn = Q.astype(dt)
        if not np.all(np.isfinite(Qn.astype(float))):
            Qn = Qn[np.all(np.isfinite(Qn.astype(float)), axis=1)]
        if len(Qn) == 0:
            continue
        want = pdf_of(pd.DataFrame(Qn.astype(np.float64), columns=cols))
        for name, obj in ((f'{np.dtype(dt).name} DataFrame', pd.DataFrame(Qn, columns=cols)), (f'{np.dtype(dt).name} ndarray', Qn.copy())):
            try:
                got = pdf_of(obj)
            except Exception as e:
                r.violation(f'C13:container-dependence:{np.dtype(dt).name}:raises', f'{tag}: pdf of a {name} raised '
                            f'{type(e).__name__}: {e}', case=case)
                continue
            r.ev(len(Qn))
            if got.shape != want.shape or not np.allclose(got, want, rtol=1e-8, atol=0, equal_nan=True):
                j = int(np.argmax(np.abs(got - want) / np.maximum(np.abs(want), 1e-300))) if got.shape == want.shape else 0
                r.violation(f'C13:container-dependence:{np.dtype(dt).name}', f'{tag}: pdf of row {Qn[j].tolist()} given in a {name} '
                            f'is {got[j] if got.shape == want.shape else got.shape!r}, the same values as float64 give {want[j]!r}',
                            case=case)
    # a model fitted on the BARE ARRAY (its columns are 0..d-1) queried through frames / Series whose labels are a *sliced*
    # RangeIndex (what `frame.iloc[:, ::-1]` and `series[::-1]` carry): labels decide, not positions
    if d >= 2:
        try:
            gm_arr = tables.fit_gm(pd.DataFrame(df.to_numpy(dtype=float).copy()), cfg if cfg not in ('dict',) else 'default')
            F = pd.DataFrame(Q.copy())
            want = np.asarray(gm_arr.probability_density(F.copy()), float)
            got_rev = np.asarray(gm_arr.probability_density(F.iloc[:, ::-1]), float)
            got_arr = np.asarray(gm_arr.probability_density(Q.copy()), float)
            ser = np.ravel(np.asarray(gm_arr.probability_density(F.iloc[3][::-1]), float))
            lp_rev = np.asarray(gm_arr.log_probability_density(F.iloc[:, ::-1]), float)
            lp = np.asarray(gm_arr.log_probability_density(F.copy()), float)
            r.tr(6)
            r.ev(4 * m)
            for name, a_, b_ in (('column-reversed frame (RangeIndex labels)', got_rev, want), ('plain array', got_arr, want),
                                 ('reversed Series (RangeIndex labels)', ser, want[3:4]), ('log density, column-reversed frame', lp_rev, lp)):
                if a_.shape != b_.shape or not np.allclose(a_, b_, rtol=1e-8, atol=0, equal_nan=True):
                    r.violation('C13:column-order-dependence:range-index', f'{tag}: model fitted on the bare array: density through a '
                                f'{name} = {a_[:2].tolist()}, through the frame in training order {b_[:2].tolist()}', case=case)
                    break
        except Exception as e:
            r.violation(f'C13:array-model:raises:{type(e).__name__}', f'{tag}: model fitted on the bare array, queried through '
                        f'frames with RangeIndex labels: raised {type(e).__name__}: {e}', case=case)
    for i in (0, 5, 13, m - 1):
        one_series = pdf_of(base_df.iloc[i])
        one_series_perm = pdf_of(base_df.iloc[i][cols[::-1]])
        one_1d = pdf_of(Q[i].copy())
        one_df = pdf_of(base_df.iloc[[i]])
        r.ev(4)
        for name, got in (('Series', one_series), ('Series-reversed-index', one_series_perm), ('ndarray-1d', one_1d),
                          ('one-row-DataFrame', one_df)):
            g = np.ravel(got)
            # 1e-8: summation order inside a marginal CDF differs between 1-row and batch calls (1 ulp), and norm.ppf amplifies
            # that by 1/phi(z) ~ 1e6 in the tails
            if g.shape != (1,) or not np.isclose(g[0], p0[i], rtol=1e-8, atol=0):
                r.violation(f'C13:container-dependence:{name}', f'{tag}: pdf of row {i} through {name} is {got!r}, through the '
                            f'batch DataFrame {p0[i]!r}', case=case)
    rev = pdf_of(base_df.iloc[::-1].reset_index(drop=True))[::-1]
    k = -(-1000 // m)
    tiled = pdf_of(pd.concat([base_df] * k, ignore_index=True)).reshape(k, m)
    r.ev(m * (k + 1))
    if not (np.allclose(rev, p0, rtol=1e-8, atol=0) and np.allclose(tiled[-1], p0, rtol=1e-8, atol=0)):
        r.violation('C13:batch-dependence', f'{tag}: pdf of a row depends on the other rows of the batch', case=case)

    # the fitted model keeps no live reference to the caller's training table (ndarray and DataFrame buffers overwritten)
    if hist == 'fresh' and d <= 4:
        from copulas.multivariate import GaussianMultivariate
        for cname, buf in (('ndarray', df.to_numpy(dtype=float).copy()),):      # (pandas copy-on-write: a frame has no in-place writes)
            dist = tables.make_config(cfg, list(range(d)) if cname == 'ndarray' else cols)
            g2 = GaussianMultivariate() if dist is None else GaussianMultivariate(distribution=dist)
            try:
                np.random.seed(12345)
                g2.fit(buf)
                qobj = Q.copy() if cname == 'ndarray' else base_df.copy()
                before = np.asarray(g2.probability_density(qobj), float)
                buf[:] = 9.75
                after = np.asarray(g2.probability_density(Q.copy() if cname == 'ndarray' else base_df.copy()), float)
                r.tr(3)
                r.ev(2 * m)
                if not np.array_equal(before, after, equal_nan=True):
                    r.violation('C13:model-aliases-training-buffer', f'{tag}: probability_density changed after the caller '
                                f'overwrote the {cname} that had been passed to fit', case=case)
            except Exception as e:
                r.violation(f'C13:raises-after-buffer-overwrite:{type(e).__name__}', f'{tag}: {type(e).__name__}: {e}', case=case)

    # the empty batch: zero rows in, zero values out
    for name, obj in (('DataFrame', base_df.iloc[:0].copy()), ('ndarray', Q[:0].copy())):
        try:
            got = pdf_of(obj)
            if got.shape != (0,):
                r.violation('C13:batch-dependence:empty-batch', f'{tag}: pdf of an empty {name} has shape {got.shape}', case=case)
        except Exception as e:
            r.violation(f'C13:batch-dependence:empty-batch:raises', f'{tag}: pdf of an empty {name} raised {type(e).__name__}: {e}',
                        case=case)

    # long batches whose length is not a multiple of any plausible block size (rows must not be processed in chunks that
    # drop or misplace a tail)
    for L in ((2350,) if tier == 'quick' else (2350, 10001, 70001)):
        idx = np.arange(L) % m
        long_df = base_df.iloc[idx].reset_index(drop=True)
        for name, obj in (('DataFrame', long_df), ('ndarray', long_df.to_numpy().copy())):
            got = pdf_of(obj)
            r.ev(L)
            if got.shape != (L,) or not np.allclose(got, p0[idx], rtol=1e-8, atol=0):
                j = int(np.nonzero(~np.isclose(got, p0[idx], rtol=1e-8, atol=0))[0][0]) if got.shape == (L,) else -1
                r.violation(f'C13:batch-dependence:long-batch', f'{tag}: in a {name} batch of {L} rows, row {j} has pdf '
                            f'{got[j] if j >= 0 else got.shape!r} but {p0[idx][j] if j >= 0 else (L,)!r} in a batch of {m}',
                            case=case)
                break

    # ---- CDF -------------------------------------------------------------------------------------------------
    def cdf_of(obj):
        r.tr()
        np.random.seed(7)
        return np.asarray(gm.cumulative_distribution(obj), float)

    try:
        c0 = cdf_of(base_df.copy())
    except Exception as e:
        r.violation(f'C13:cdf-raises:{type(e).__name__}', f'{tag}: cumulative_distribution raised {type(e).__name__}: {e}',
                    case=case)
        return r
    r.ev(m)
    # the documented shortcuts pdf / cdf are the same functions as the long names
    np.random.seed(7)
    short_c = np.asarray(gm.cdf(base_df.copy()), float)
    short_p = np.asarray(gm.pdf(base_df.copy()), float)
    r.tr(2)
    if not (np.array_equal(short_c, c0, equal_nan=True) and np.array_equal(short_p, p0, equal_nan=True)):
        r.violation('C13:shortcut', f'{tag}: pdf / cdf differ from probability_density / cumulative_distribution', case=case)
    tol = 1e-8 if d == 2 else 2e-4
    if c0.shape != (m,) or np.isnan(c0).any() or c0.min() < -tol or c0.max() > 1 + tol:
        r.violation('C13:cdf-range', f'{tag}: cumulative_distribution outside [0,1] or wrong shape: {c0.min()!r}..{c0.max()!r}',
                    case=case)
    else:
        if d == 2:
            ref = np.array([mvn.cdf2(S[i, 0], S[i, 1], C[0, 1]) for i in range(m)])
        elif d == 3:
            ref = np.array([mvn.cdf3(S[i], C) for i in range(m)])
        else:
            ref = None
        if ref is not None:
            r.hit(f'cdf-reference-d{d}')
            e = np.abs(c0 - ref)
            r['extra'][f'max_cdf_err_d{d}_e9'] = float(e.max() * 1e9)
            if e.max() > tol:
                i = int(np.argmax(e))
                r.violation(f'C13:cdf-value:d{d}', f'{tag}: cumulative_distribution(row {Q[i].tolist()}) = {c0[i]!r} but the '
                            f'normal CDF at the scores is {ref[i]!r}', case=case)
        n0 = len(rows)
        for name, sl in (('all-coordinates', slice(n0, n0 + 7)), ('one-coordinate', slice(n0 + 7, n0 + 14))):
            ch = c0[sl]
            if np.any(np.diff(ch) < -(1e-12 if d == 2 else 2e-4)):
                r.violation('C13:cdf-not-monotone', f'{tag}: CDF decreases along the {name} chain: {ch.tolist()}', case=case)
        # representation independence of the CDF (one permutation, ndarray, Series)
        for name, obj in (('reversed-columns', base_df[cols[::-1]].copy()), ('ndarray-2d', Q.copy())):
            got = cdf_of(obj)
            r.ev(m)
            if not np.allclose(got, c0, rtol=0, atol=tol):
                i = int(np.argmax(np.abs(got - c0)))
                r.violation(f'C13:cdf-container-dependence:{name}', f'{tag}: CDF through {name} is {got[i]!r}, through the '
                            f'training-order DataFrame {c0[i]!r}', case=case)
        g = np.ravel(cdf_of(base_df.iloc[3]))
        if g.shape != (1,) or abs(g[0] - c0[3]) > tol:
            r.violation('C13:cdf-container-dependence:Series', f'{tag}: CDF of a Series row is {g!r} vs {c0[3]!r}', case=case)
    r.hit(f'd={d}')
    r.outcome(cfg)
    r['sample'] = {'table': list(map(str, t)), 'config': cfg, 'query_rows': m, 'permutations': len(perms),
                   'pdf_first_row': float(p0[0]), 'ref_first_row': float(np.exp(lp_ref[0]))}
    return r


def finish(agg, tier):
    for k in ('d=2', 'd=3', 'd=4', 'cdf-reference-d2', 'cdf-reference-d3', 'refit-history'):
        engine.require(agg['hits'].get(k, 0) >= 3, f'{k} under-explored')
