"""C15 - sampling is reproducible per model seed and never perturbs the global RNG.

E2 + E3 (model checking): two equal seeded models A, B, an unseeded model U and the global generator G; exhaustive
depth-first enumeration of all operation sequences {sA(1), sA(3), sB(1), sB(3), sU(2), g, xA, rA} up to the depth bound,
from several prior global states. Reference model = a dictionary of cloned RandomState states, advanced through an
UNSEEDED TWIN of the model under the cloned state (no hand-written sampler).
"""
import numpy as np
import pandas as pd

from mc import engine, seq, zoo

PROPERTY = 'C15'
LEVEL = 'model_checking'
ENGINE = 'E2-sequence-explorer'
ENGINES = ('E2-sequence-explorer', 'E3-environment-explorer')
TECHNIQUE = ('exhaustive enumeration (DFS with RNG-state snapshots) of all interleavings up to depth 3 of sample / failing '
             'sample / set_random_state / un-seed / refit / query calls on two equal seeded models, an unseeded model and the global generator, for '
             'every sampler class x seed form x prior global state; reference = cloned RandomState dictionary advanced '
             'through an unseeded twin')
LEVEL_TEXT = ('every operation sequence up to the bound is executed on the real objects and, after each operation, the '
              'output and the complete global generator state are compared bit-for-bit with the reference model. The '
              'claim for "all seeds / all prior states" rests on this identity for the enumerated seeds plus NumPy.')
LEVEL_NOTE = 'trusted: numpy RandomState get_state/set_state; the unseeded sampling path of the same class serves as twin'
RULE = ('sampler zoo (23 univariate configurations incl. wrapper/KDE/constants, 3 bivariate, Gaussian multivariate plain and '
        'conditional, 6 vines) x seed form {0, 12345, shared RandomState(7)} x prior global state {seed(1), seed(2), advanced} x '
        'all sequences of length <= 3 over 11 operations (length 2 for vines and secondary priors) plus 7 targeted longer histories; + 11 dataset generators x '
        '4 sizes x 3 seeds; non-trivial = every transition; distinct = distinct (model, RNG-state vector)')
ASSUMPTIONS = ['models A, B, U and the twin are separate fits of the same specification (fit is deterministic: C19)']

OPS = ('sA1', 'sA3', 'sB1', 'sB3', 'sU2', 'g', 'xA', 'rA', 'nA', 'fA', 'qA')
# nA: A.set_random_state(None) - from then on A is driven by the global generator; fA: A is fitted again on its own training data
# (same parameters, and a fit is not a sample call: the seeded stream simply continues); qA: A answers queries (density, cdf,
# quantiles / likelihood) - not sample calls either; what a query does to the GLOBAL generator is not judged (scipy's
# multivariate normal integral draws from it), the state it leaves is simply taken as the new global state


def sampler_specs(tier):
    out = []
    for m in zoo.UNI_MODELS_QUICK:
        out.append(('uni', m, ('normal', 0.0, 1.0, 30)))
    out.append(('uni', ('truncated', 'wide-bounds'), ('normal', 3.0, 1.5, 30)))
    out.append(('uni', ('univariate', 'cands-instances'), ('const', 3.0, 20)))
    out.append(('uni', ('gaussian',), ('const', 3.0, 20)))
    out.append(('uni', ('kde', None, None, False), ('const', 3.0, 20)))
    out.append(('uni', ('univariate', 'default'), ('const', 3.0, 20)))
    out += [('biv', 'clayton', 2.0), ('biv', 'frank', -3.0), ('biv', 'gumbel', 2.5)]
    out += [('gm', 'gaussian-class', zoo.GM_TABLES[1]), ('gm', 'default', zoo.GM_TABLES[0]),
            ('gm-cond', 'gaussian-class', zoo.GM_TABLES[2])]
    for v in zoo.VINE_TYPES:
        out.append(('vine', v, zoo.VINE_TABLES[0]))
        out.append(('vine', v, zoo.VINE_TABLES[1]))
    return out


def bounds(tier):
    return {'samplers': len(sampler_specs(tier)), 'operations': list(OPS), 'depth': 3 if tier == 'quick' else 4,
            'seed_forms': ['int 0', 'int 12345', 'shared RandomState(7)'], 'prior_global_states': 3}


def cases(tier, seed):
    out = []
    for spec in sampler_specs(tier):
        for sf in ('int0', 'int12345', 'rs7'):
            out.append(('seq', spec, sf, 3 if tier == 'quick' else 4))
    for k in range(11):
        out.append(('datasets', k, '', 0))
    out.append(('independence', 0, '', 0))
    # one very large request followed by a small one (requests above 1e5 rows must advance the stream like any other)
    for spec in (('uni', ('gaussian',), ('normal', 0.0, 1.0, 30)), ('biv', 'clayton', 2.0),
                 ('gm', 'gaussian-class', zoo.GM_TABLES[2])):
        for sf in ('int0', 'rs7'):
            out.append(('big-call', spec, sf, 0))
    out.sort(key=lambda c: (c[0] != 'seq', c[0] != 'seq' or c[1][0] != 'vine', c[0] != 'seq' or c[1][0] not in ('gm', 'gm-cond')))
    return out


def _build(spec, rs):
    s = spec if spec[0] != 'gm-cond' else ('gm',) + spec[1:]
    return zoo.build(s, random_state=rs)


def _sample(m, spec, n):
    if spec[0] == 'gm-cond':
        df = zoo.training_data(('gm',) + spec[1:])
        c = df.columns[1]
        if n == 3:
            # the same condition handed over as a pandas Series (the other documented container): same stream protocol
            import pandas as pd
            return m.sample(n, conditions=pd.Series({c: float(df[c].iloc[2])}))
        return m.sample(n, conditions={c: float(df[c].iloc[2])})
    if spec[0] in ('uni',):
        return m.sample(n)
    return m.sample(n)


def _refittable(spec):
    """Specs whose fit is deterministic, touches no generator, and has training data to repeat."""
    if spec[0] == 'biv':
        return False
    if spec[0] == 'uni':
        m = spec[1]
        # (a re-fitted GaussianKDE resamples its training set from the global generator: known finding of C19)
        return m[0] != 'kde' and not (m[0] == 'univariate' and len(m) > 1 and 'sample' in str(m[1]))
    return True


def _refit(m, spec):
    import warnings
    s = spec if spec[0] != 'gm-cond' else ('gm',) + spec[1:]
    X = zoo.training_data(s)
    with warnings.catch_warnings():
        warnings.simplefilter('ignore')
        m.fit(X.copy())


def _query(m, spec):
    """Every query method of the model, on points taken from its training data (no sample call)."""
    s = spec if spec[0] != 'gm-cond' else ('gm',) + spec[1:]
    P = zoo.probe_points(s)
    if spec[0] == 'uni':
        zoo.attempt(lambda: m.probability_density(P.copy()))
        zoo.attempt(lambda: m.cumulative_distribution(P.copy()))
        zoo.attempt(lambda: m.percent_point(np.array([0.1, 0.5, 0.9])))
        zoo.attempt(lambda: m.log_probability_density(P.copy()))
    elif spec[0] == 'biv':
        zoo.attempt(lambda: m.cumulative_distribution(P.copy()))
        zoo.attempt(lambda: m.probability_density(P.copy()))
        zoo.attempt(lambda: m.partial_derivative(P.copy()))
        zoo.attempt(lambda: m.percent_point(np.array([0.2, 0.7]), np.array([0.4, 0.6])))
    elif spec[0] in ('gm', 'gm-cond'):
        zoo.attempt(lambda: m.probability_density(P.iloc[:3].copy()))
        zoo.attempt(lambda: m.cumulative_distribution(P.iloc[:1].copy()))
        zoo.attempt(lambda: m.cdf(P.iloc[1:2].copy()))
        zoo.attempt(lambda: m.log_probability_density(P.iloc[:2].copy()))
    else:
        zoo.attempt(lambda: m.get_likelihood(np.full((1, P.shape[1]), 0.4)))
    zoo.attempt(m.to_dict)


def _arr(x):
    return zoo.attempt(lambda: np.asarray(x, dtype=float)) if not isinstance(x, zoo.Raised) else x


def gstate():
    return seq.canon(np.random.get_state())


def run_case(case):
    kind = case[0]
    r = engine.new_result()
    if kind == 'datasets':
        return _datasets(r, case)
    if kind == 'big-call':
        return _big_call(r, case)
    if kind == 'independence':
        return _independence(r, case)
    _, spec, sf, depth = case
    if spec[0] == 'vine':
        depth = min(depth, 2)
    tag0 = f'{spec} seed={sf}'
    shared = np.random.RandomState(7)
    shared_snapshot = seq.canon(shared)

    def seedobj():
        return {'int0': 0, 'int12345': 12345, 'rs7': shared}[sf]

    def seedstate():
        return {'int0': np.random.RandomState(0), 'int12345': np.random.RandomState(12345),
                'rs7': np.random.RandomState(7)}[sf].get_state()

    A, B = _build(spec, seedobj()), _build(spec, seedobj())
    U, T = _build(spec, None), _build(spec, None)

    def _init_snap(m):
        rs = m.random_state
        return None if rs is None else ('alias' if rs is shared else 'own', rs.get_state())
    initA, initB = _init_snap(A), _init_snap(B)
    priors = ('seed1', 'seed2', 'advanced')

    def twin(state, n):
        """Output of the unseeded twin under `state`; returns (output, state afterwards). Global state is restored."""
        keep = np.random.get_state()
        np.random.set_state(state)
        out = zoo.attempt(_sample, T, spec, n)
        after = np.random.get_state()
        np.random.set_state(keep)
        return _arr(out), after

    for pi, prior in enumerate(priors):
        d = depth if pi == 0 else min(depth, 2)
        np.random.seed(1 if prior == 'seed1' else 2)
        if prior == 'advanced':
            np.random.uniform(size=1000)
        g0 = np.random.get_state()

        def snap_model(m):
            rs = m.random_state
            if rs is None:
                return None
            return ('alias' if rs is shared else 'own', rs.get_state())

        def restore_model(m, sm):
            # keeps the aliasing between a model and the caller's RandomState object: it is part of the state
            if sm is None:
                m.random_state = None
            elif sm[0] == 'alias':
                shared.set_state(sm[1])
                m.random_state = shared
            else:
                rs = np.random.RandomState()
                rs.set_state(sm[1])
                m.random_state = rs

        def reset():
            # back to the state right after construction with the seed (NOT through set_random_state: the constructor
            # path is part of what is being checked)
            restore_model(A, initA)
            restore_model(B, initB)
            np.random.set_state(g0)
            return {'A': seedstate(), 'B': seedstate(), 'G': g0}

        def snapshot(ref):
            return (snap_model(A), snap_model(B), np.random.get_state(), dict(ref))

        def restore(snap):
            a, b, g, ref = snap
            restore_model(A, a)
            restore_model(B, b)
            np.random.set_state(g)
            return dict(ref)

        stop = []

        def step(op, ref, hist):
            """Execute op on the real objects, advance the reference, compare. Returns False on violation."""
            r.tr()
            r.ev()
            tag = f'{tag0}, prior global state {prior}, history {"/".join(hist)}'
            if op in ('sA1', 'sA3', 'sB1', 'sB3', 'xA'):
                who = 'A' if op[1] == 'A' else 'B'
                n = -1 if op == 'xA' else int(op[2])
                m = A if who == 'A' else B
                got = _arr(zoo.attempt(_sample, m, spec, n))
                if ref[who] is None:               # un-seeded by nA: the global generator drives (and is advanced by) the call
                    exp, after = twin(ref['G'], n)
                    ref['G'] = after
                else:
                    exp, after = twin(ref[who], n)
                    ref[who] = after
                if not seq.values_equal(got, exp):
                    r.violation(f'C15:{spec[0]}:{_lab(spec)}:stream', f'{tag}: output of {op} differs from the stream '
                                f'determined by (model, seed, previous calls): {_s(got)} vs twin {_s(exp)}', case=case)
                    return False
            elif op == 'sU2':
                got = _arr(zoo.attempt(_sample, U, spec, 2))
                exp, after = twin(ref['G'], 2)
                ref['G'] = after
                if not seq.values_equal(got, exp):
                    r.violation(f'C15:{spec[0]}:{_lab(spec)}:unseeded-stream', f'{tag}: unseeded sample is not reproducible '
                                f'through the global state', case=case)
                    return False
            elif op == 'g':
                np.random.uniform()
                rs = np.random.RandomState()
                rs.set_state(ref['G'])
                rs.uniform()
                ref['G'] = rs.get_state()
            elif op == 'rA':
                A.set_random_state(5)
                ref['A'] = np.random.RandomState(5).get_state()
            elif op == 'nA':
                A.set_random_state(None)
                ref['A'] = None
            elif op == 'qA':
                import warnings
                with warnings.catch_warnings():
                    warnings.simplefilter('ignore')
                    _query(A, spec)
                ref['G'] = np.random.get_state()
            elif op == 'fA':
                if _refittable(spec):
                    res_ = zoo.attempt(_refit, A, spec)
                    if isinstance(res_, zoo.Raised):
                        r.violation(f'C15:{spec[0]}:{_lab(spec)}:refit-raises', f'{tag}: fitting the model again on its own '
                                    f'training data raised {res_.name}: {res_.msg}', case=case)
                        return False
            if seq.canon(np.random.get_state()) != seq.canon(ref['G']):
                r.violation(f'C15:{spec[0]}:{_lab(spec)}:global-state-perturbed', f'{tag}: the global NumPy generator state '
                            f'after {op} is not the expected one', case=case)
                return False
            if sf == 'rs7' and seq.canon(shared) != shared_snapshot:
                r.violation(f'C15:{spec[0]}:{_lab(spec)}:caller-randomstate-mutated', f'{tag}: the RandomState object passed '
                            f'as seed was modified', case=case)
                return False
            r.state((spec, sf, seq.key((ref['A'], ref['B'], ref['G']))))
            return True

        def dfs(ref, hist):
            if len(hist) >= d or stop:
                return
            snap = snapshot(ref)
            for op in OPS:
                ref2 = restore(snap)
                ok = step(op, ref2, hist + (op,))
                if not ok:
                    stop.append(1)
                    return
                dfs(ref2, hist + (op,))
            restore(snap)

        dfs(reset(), ())
        if stop:
            break
        # a few longer histories for every sampler (the DFS of vines stops at length 2): a fit in the middle of a seeded
        # sequence, after a re-seed, and after the seed was removed
        if pi == 0:
            for hist in (('sA1', 'fA', 'sA1'), ('rA', 'fA', 'sA1'), ('rA', 'sA1', 'fA', 'sA3'), ('nA', 'fA', 'sA1'),
                         ('sA1', 'nA', 'sA1', 'sU2'), ('rA', 'qA', 'sA1', 'qA', 'sA3'), ('nA', 'qA', 'sA1')):
                ref = reset()
                for k_, op in enumerate(hist):
                    if not step(op, ref, hist[:k_ + 1]):
                        stop.append(1)
                        break
                if stop:
                    break
            if stop:
                break
    r.nontriv()
    r.hit(f'kind:{spec[0]}')
    r['sample'] = {'sampler': [str(x) for x in spec], 'seed_form': sf, 'depth': depth, 'operations': list(OPS)}
    return r


def _lab(spec):
    return str(spec[1][0] if spec[0] == 'uni' else spec[1])


def _s(v):
    s = repr(v)
    return s if len(s) < 140 else s[:137] + '...'


def _independence(r, case):
    """The parameter-free fourth bivariate family: IF a seeded instance samples at all, it obeys the same laws (it may refuse)."""
    from copulas.bivariate.base import Bivariate
    from copulas.bivariate.independence import Independence
    for how, make in (('Independence(random_state=s)', lambda s_: Independence(random_state=s_)),
                      ("Bivariate(copula_type='independence', random_state=s)", lambda s_: Bivariate(copula_type='independence',
                                                                                                       random_state=s_))):
        outs = []
        for twin in (0, 1):
            m = make(5)
            np.random.seed(9)
            g0 = gstate()
            a_ = zoo.attempt(m.sample, 4)
            b_ = zoo.attempt(m.sample, 4)
            r.tr(2)
            r.ev()
            if not isinstance(a_, zoo.Raised):
                if gstate() != g0:
                    r.violation('C15:biv:independence:global-state-perturbed', f'{how}: sample changed the global generator', case=case)
                if seq.values_equal(np.asarray(a_), np.asarray(b_)):
                    r.violation('C15:biv:independence:stream-not-advanced', f'{how}: two successive samples are identical', case=case)
            outs.append(a_)
        if not isinstance(outs[0], zoo.Raised) and not seq.values_equal(np.asarray(outs[0]), np.asarray(outs[1])):
            r.violation('C15:biv:independence:twins-differ', f'{how}: two equal models with the same seed give different samples',
                        case=case)
        r.outcome('independence:' + ('refuses' if isinstance(outs[0], zoo.Raised) else 'samples'))
        r.state(('independence', how))
    r.nontriv()
    r.hit('independence')
    r['sample'] = {'kind': 'independence family'}
    return r


def _big_call(r, case):
    _, spec, sf, _ = case
    n_big = 100001 if spec[0] != 'biv' else 20001          # the bivariate sampler solves one root per row
    streams = []
    for twin in (0, 1):
        rs = {'int0': 0, 'rs7': np.random.RandomState(7)}[sf]
        m = _build(spec, rs)
        np.random.seed(5)
        g0 = gstate()
        r.tr(3)
        big = np.asarray(m.sample(n_big), float)
        small = np.asarray(m.sample(3), float)
        small2 = np.asarray(m.sample(3), float)
        if gstate() != g0:
            r.violation(f'C15:{spec[0]}:big-call:global-state-perturbed', f'{spec} seed={sf}: sample({n_big}) changed the global '
                        f'generator', case=case)
        streams.append((big, small, small2))
    r.ev(2)
    r.nontriv()
    r.state(('big-call', spec, sf))
    (b0, s0, t0), (b1, s1, t1) = streams
    if len(b0) != n_big or not (np.array_equal(b0, b1, equal_nan=True) and np.array_equal(s0, s1, equal_nan=True)
                                and np.array_equal(t0, t1, equal_nan=True)):
        r.violation(f'C15:{spec[0]}:big-call:twins-differ', f'{spec} seed={sf}: two equal models with the same seed differ after a '
                    f'sample({n_big}) call', case=case)
    if np.array_equal(s0, b0[:3], equal_nan=True) or np.array_equal(s0, t0, equal_nan=True):
        r.violation(f'C15:{spec[0]}:big-call:stream-not-advanced', f'{spec} seed={sf}: the sample(3) after sample({n_big}) repeats '
                    f'{"the first rows of the large sample" if np.array_equal(s0, b0[:3], equal_nan=True) else "itself"}: the '
                    f'stream did not advance', case=case)
    fresh = _build(spec, {'int0': 0, 'rs7': np.random.RandomState(7)}[sf])
    if np.array_equal(np.asarray(fresh.sample(3), float), s0, equal_nan=True):
        r.violation(f'C15:{spec[0]}:big-call:stream-not-advanced', f'{spec} seed={sf}: after sample({n_big}) the model samples '
                    f'like a freshly seeded model', case=case)
    r.hit('big-call')
    r['sample'] = {'kind': 'big call', 'spec': str(spec), 'seed_form': sf, 'rows': n_big}
    return r


def _datasets(r, case):
    import copulas.datasets as D
    names = ['sample_bivariate_age_income', 'sample_trivariate_xyz', 'sample_univariate_bernoulli',
             'sample_univariate_bimodal', 'sample_univariate_uniform', 'sample_univariate_normal',
             'sample_univariate_degenerate', 'sample_univariate_exponential', 'sample_univariate_beta',
             'sample_univariates', 'sample_bivariate_age_income']
    k = case[1]
    fn = getattr(D, names[k])
    for size in (1, 2, 10, 1000):
        for sd in (0, 42, 2 ** 32 - 1):
            outs = []
            for prior in (1, 2, 'adv'):
                np.random.seed(1 if prior == 'adv' else prior)
                if prior == 'adv':
                    np.random.normal(size=777)
                g0 = gstate()
                r.tr()
                r.ev()
                out = zoo.attempt(fn, size, sd) if k != 10 else zoo.attempt(lambda: fn(size=size, seed=sd))
                tag = f'{names[k]}(size={size}, seed={sd}) from prior global state {prior}'
                if isinstance(out, zoo.Raised):
                    r.violation(f'C15:datasets:{names[k]}:raises', f'{tag}: raised {out.name}: {out.msg}', case=case)
                    break
                if len(out) != size:
                    r.violation(f'C15:datasets:{names[k]}:size', f'{tag}: returned {len(out)} rows', case=case)
                if gstate() != g0:
                    r.violation(f'C15:datasets:{names[k]}:global-state-perturbed', f'{tag}: changed the global generator',
                                case=case)
                outs.append(out)
                r.state((names[k], size, sd, prior))
            if len(outs) == 3 and not (seq.values_equal(outs[0], outs[1]) and seq.values_equal(outs[0], outs[2])):
                r.violation(f'C15:datasets:{names[k]}:not-deterministic', f'{names[k]}(size={size}, seed={sd}) depends on the '
                            f'prior global state', case=case)
            elif len(outs) == 3 and size >= 2:
                # ... and does not depend on what a caller did to an earlier result (results are not shared objects)
                import copy as _copy
                keep = _copy.deepcopy(outs[0])
                try:
                    if isinstance(outs[2], pd.DataFrame):
                        outs[2].iloc[:, :] = -12345.0
                    else:
                        outs[2].iloc[:] = -12345.0
                except Exception:
                    pass
                r.tr()
                again = zoo.attempt(fn, size, sd) if k != 10 else zoo.attempt(lambda: fn(size=size, seed=sd))
                if not seq.values_equal(again, keep):
                    r.violation(f'C15:datasets:{names[k]}:not-deterministic:result-shared', f'{names[k]}(size={size}, seed={sd}) '
                                f'returns different values after a caller overwrote an earlier result in place', case=case)
    r.nontriv()
    r.hit('datasets')
    r['sample'] = {'generator': names[k], 'sizes': [1, 2, 10, 1000], 'seeds': [0, 42, 2 ** 32 - 1]}
    return r


def finish(agg, tier):
    for k in ('kind:uni', 'kind:biv', 'kind:gm', 'kind:gm-cond', 'kind:vine', 'datasets'):
        engine.require(agg['hits'].get(k, 0) >= 3, f'{k} under-explored')
    engine.require(agg['trans'] >= 20000, 'too few transitions')
