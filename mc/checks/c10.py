"""C10 - Bivariate fit calibrates theta to the data's Kendall tau or refuses.

E1: exhaustive rank patterns (every tie pattern x every weak order) for n = 2..5 (thorough 6) in two
pseudo-observation mappings, designed n=200 permutation datasets on a tau grid, corrupted variants;
E2: every ordered pair of a dataset mini-alphabet fitted on ONE object (refit history) vs a fresh object.
"""
import math

import numpy as np

from mc import alphabets as A
from mc import engine

PROPERTY = 'C10'
LEVEL = 'exploration'
ENGINE = 'E1-product-explorer'
ENGINES = ('E1-product-explorer', 'E2-sequence-explorer')
TECHNIQUE = ('exhaustive enumeration of all rank patterns (tie pattern x weak order) of n<=5 (6) points in two '
             'pseudo-observation mappings + designed tau-grid datasets, each fitted by all three families against a '
             'definition-level tau-b and the tau->theta calibrations; all ordered refit pairs on one object')
LEVEL_TEXT = ('every pseudo-observation array of the enumerated rank-pattern space is fitted by every family and '
              'checked against the reference tau-b / calibration / refusal rules; this is complete for n<=5 (6) up to '
              'the choice of rank-to-[0,1] mapping, and a grid for larger n: exploration.')
LEVEL_NOTE = ('trusted: O(n^2) tau-b reference, scipy quad for the Debye integral (cross-checked with mpmath in the '
              'self-test); Frank tolerance 1e-6 + 5e-7/theta^2 covers the EPSILON lower integration limit')
RULE = ('all (tie pattern of U, weak order of V) for n=2..5 (thorough ..6) x {open, closed} mapping x 3 families; 39 '
        'designed tau values x n=200 (+2 corrupted variants each); 8x8 ordered refit pairs x 3 families; non-trivial = '
        'dataset with defined tau (no constant column); distinct = distinct (dataset, family)')
ASSUMPTIONS = ['tau-b reference from the definition', 'scipy.integrate.quad for the Debye function']

FAMS = ('clayton', 'gumbel', 'frank')
CHUNK = 150


def bounds(tier):
    nmax = 5 if tier == 'quick' else 6
    return {'n_max_exhaustive': nmax, 'patterns': {n: len(A.set_partitions_as_sorted_ties(n)) * _fubini(n)
                                                  for n in range(2, nmax + 1)},
            'designed_taus': 39, 'designed_n': 200}


def _fubini(n):
    return {1: 1, 2: 3, 3: 13, 4: 75, 5: 541, 6: 4683, 7: 47293}[n]


def prefork():
    for n in (2, 3, 4, 5):
        A.rank_patterns(n)


def cases(tier, seed):
    nmax = 5 if tier == 'quick' else 6
    out = []
    for n in range(2, nmax + 1):
        total = len(A.set_partitions_as_sorted_ties(n)) * _fubini(n)
        for mapping in ('open', 'closed') + (('tiny',) if (n <= 4 or tier != 'quick') else ()):
            for start in range(0, total, CHUNK):
                out.append(('patterns', n, start, min(total, start + CHUNK), mapping))
    taus = [round(-0.95 + 0.05 * i, 2) for i in range(39)]
    for t in taus:
        out.append(('designed', 200, t, 0, ''))
    for fam in FAMS:
        out.append(('history', 0, fam, 0, ''))
    # more than 100 000 rows with an even / odd structure: any striding or blocking of the rows changes tau
    out.append(('huge', 150000, 0, 0, ''))
    # |tau| within 1e-5 of 1 but not 1: monotone data with one adjacent pair swapped (tau = +-(1 - 4/(n(n-1))))
    for n in (700, 1000, 2000):
        for sign in (1, -1):
            out.append(('near-monotone', n, sign, 0, ''))
    # big cases first for load balance
    out.sort(key=lambda c: (c[0] != 'patterns', -(c[1] if isinstance(c[1], int) else 0)))
    return out


def _fit(fam, X):
    from copulas.bivariate.base import Bivariate
    c = Bivariate(copula_type=fam)
    try:
        c.fit(X)
        return c, None
    except Exception as e:  # noqa
        return c, e


def _check_fit(r, fam, X, case, tag):
    from mc.ref import kendall as K
    sig = f'C10:{fam}'
    r.tr()
    r.ev()
    cop, exc = _fit(fam, X.copy())
    U, V = X[:, 0], X[:, 1]
    desc = f'{fam}.fit({tag})'
    invalid = bool(np.isnan(X).any()) or (X.min() < 0) or (X.max() > 1)       # a missing value is not inside [0,1] either
    tref = K.tau_b(U, V) if not np.isnan(X).any() else float('nan')
    if invalid or math.isnan(tref):
        why = 'out-of-range' if invalid else 'constant-column'
        r.hit(f'refusal:{why}')
        if not isinstance(exc, ValueError):
            r.violation(f'{sig}:no-refusal:{why}', f'{desc}: expected ValueError ({why}), got '
                        f'{type(exc).__name__ if exc else "a model with theta=" + repr(cop.theta)}', case=case, X=X)
        return
    r.nontriv()
    if exc is not None and not isinstance(exc, ValueError):
        r.violation(f'{sig}:raises:{type(exc).__name__}', f'{desc}: raised {type(exc).__name__}: {exc}', case=case, X=X)
        return
    admissible = True
    if fam in ('clayton', 'gumbel'):
        th_ref = K.theta_from_tau(fam, tref)
        # tau = +1 is the comonotone limit (theta -> inf): scipy's tau may be 1 - 1ulp there, so, as for Frank,
        # only 'ValueError or a theta inside the declared interval' is required; tau < 0 must always be refused
        admissible = th_ref is not None or tref == 1.0
    if not admissible:
        r.hit(f'refusal:{fam}-no-admissible-theta')
        if exc is None:
            r.violation(f'{sig}:no-refusal:inadmissible-tau', f'{desc}: tau={tref!r} has no admissible theta but fit '
                        f'returned theta={cop.theta!r}', case=case, X=X)
        return
    if abs(tref) == 1.0:
        r.hit('tau=+-1')
        if exc is None:
            lo, hi = cop.theta_interval
            if not (lo <= cop.theta <= hi) or cop.theta in cop.invalid_thetas or \
                    (isinstance(cop.theta, float) and math.isnan(cop.theta)):
                r.violation(f'{sig}:inadmissible-theta', f'{desc}: |tau|=1 gave theta={cop.theta!r}', case=case, X=X)
        return
    if exc is not None:
        r.violation(f'{sig}:spurious-refusal', f'{desc}: tau={tref!r} is calibratable but fit raised ValueError: {exc}',
                    case=case, X=X)
        return
    if not (cop.tau is not None and abs(cop.tau - tref) <= 1e-12):
        r.violation(f'{sig}:tau', f'{desc}: model.tau={cop.tau!r} but Kendall tau-b={tref!r}', case=case, X=X)
        return
    th = float(cop.theta)
    lo, hi = cop.theta_interval
    if not (lo <= th <= hi) or th in cop.invalid_thetas or math.isnan(th):
        r.violation(f'{sig}:inadmissible-theta', f'{desc}: theta={th!r} outside the admissible set', case=case, X=X)
        return
    if fam == 'frank':
        if not math.isfinite(th):
            r.violation(f'{sig}:inadmissible-theta', f'{desc}: theta={th!r}', case=case, X=X)
            return
        if abs(tref) <= 0.99:
            t_of_theta = K.frank_tau_fast(th)
            tol = 1e-6 + 5e-7 / th ** 2
            if not abs(t_of_theta - tref) <= tol:
                r.violation(f'{sig}:calibration', f'{desc}: theta={th!r} has Kendall tau {t_of_theta!r}, data tau='
                            f'{tref!r} (tol {tol:.1e})', case=case, X=X)
    else:
        # theta(tau) = c / (1 - tau) amplifies the last bit of tau (two correct tau-b implementations differ by one ulp) by
        # c / (1 - tau)^2: 1e-10 relative at tau = 1 - 1e-6
        slope = (2.0 if fam == 'clayton' else 1.0) / (1.0 - tref) ** 2
        if not abs(th - th_ref) <= 1e-12 * max(1.0, abs(th_ref)) + 8 * np.finfo(float).eps * slope:
            r.violation(f'{sig}:calibration', f'{desc}: theta={th!r}, calibration of tau={tref!r} is {th_ref!r}',
                        case=case, X=X)
    r.outcome(f'{fam}:fitted')


HIST = [
    ('tau0', np.array([[0.2, 0.4], [0.4, 0.2], [0.6, 0.8], [0.8, 0.6]])),            # 4 conc, 2 disc -> use below
    ('tau0b', np.array([[0.2, 0.6], [0.4, 0.2], [0.6, 0.8], [0.8, 0.4]])),
    ('pos', None), ('neg', None), ('strongpos', None), ('ties', np.array([[0.2, 0.2], [0.2, 0.5], [0.5, 0.5],
                                                                            [0.8, 0.5], [0.8, 0.9]])),
    ('const', np.array([[0.3, 0.1], [0.3, 0.5], [0.3, 0.9]])),
    ('oob', np.array([[0.1, 0.2], [0.5, 1.01], [0.9, 0.7]])),
]


def _hist_data():
    out = []
    for name, X in HIST:
        if X is None:
            X = A.designed_tau_array(40, {'pos': 0.4, 'neg': -0.91, 'strongpos': 0.9}[name])
        out.append((name, np.asarray(X, float)))
    # exact tau = 0: 3 concordant / 3 discordant pairs
    out[0] = ('tau0', np.array([[0.2, 0.4], [0.4, 0.8], [0.6, 0.2], [0.8, 0.6]]))
    return out


def TINY_EXCESS(n):
    """Entries outside [0,1] by less than any plausible tolerance: the range test is exact, not approximate."""
    return ((0, 0, -1e-10), (n - 1, 1, float(np.nextafter(1.0, 2.0))), (0, 1, 1 + 5e-8), (n - 1, 0, -5e-8),
            (0, 0, float('nan')), (n - 1, 1, float('nan')))


def run_case(case):
    from mc.ref import kendall as K
    kind = case[0]
    r = engine.new_result()
    if kind == 'patterns':
        _, n, start, stop, mapping = case
        for idx in range(start, stop):
            X = A.pattern_array(n, idx, mapping)
            for fam in FAMS:
                _check_fit(r, fam, X, case, f'n={n} pattern#{idx} {mapping}')
                r.state((n, idx, mapping, fam))
                if idx % 7 == 0:
                    # the same table stored with dtype=object: same outcome (value or refusal) as for float64
                    bc, be = _fit(fam, X.copy())
                    oc, oe = _fit(fam, X.astype(object))
                    r.tr(2)
                    if type(be) is not type(oe) or (be is None and not (oc.theta == bc.theta or (oc.theta != oc.theta and bc.theta != bc.theta))):
                        r.violation(f'C10:{fam}:dtype-dependence:object', f'{fam}.fit(n={n} pattern#{idx} {mapping}) stored as dtype=object: '
                                    f'{"raised " + type(oe).__name__ if oe else oc.theta!r}, as float64: '
                                    f'{"raised " + type(be).__name__ if be else bc.theta!r}', case=case, X=X)
                if idx % 7 == 3 and abs(K.tau_b(X[:, 0], X[:, 1])) < 0.999:          # (tau = 1 - 1ulp rounds to 1 in a narrow type)
                    # ... and stored as float32 / float16 (when the narrower type keeps every order relation of both columns and
                    # keeps the values inside [0, 1]): the same refusal, or the same theta up to the precision of the narrow type
                    # (scipy's kendalltau answers in the precision it is given; that is not judged)
                    bc, be = _fit(fam, X.copy())
                    for dt in (np.float32, np.float16):
                        Xn = X.astype(dt)
                        keeps = all(np.array_equal(np.unique(Xn[:, j], return_inverse=True)[1], np.unique(X[:, j], return_inverse=True)[1])
                                    for j in (0, 1)) and float(Xn.min()) >= 0.0 and float(Xn.max()) <= 1.0
                        if not keeps:
                            continue
                        nc, ne = _fit(fam, Xn)
                        r.tr()
                        if type(be) is not type(ne) or (be is None and not (abs(float(nc.theta) - bc.theta) <= 50 * float(np.finfo(dt).eps) * max(1.0, abs(bc.theta)) or
                                                                             (nc.theta != nc.theta and bc.theta != bc.theta) or nc.theta == bc.theta)):
                            r.violation(f'C10:{fam}:dtype-dependence:{dt.__name__}', f'{fam}.fit(n={n} pattern#{idx} {mapping}) stored as '
                                        f'{dt.__name__}: {"raised " + type(ne).__name__ + ": " + str(ne)[:60] if ne else nc.theta!r}, as float64: '
                                        f'{"raised " + type(be).__name__ if be else bc.theta!r}', case=case, X=X)
                if mapping == 'closed' and set(np.unique(X).tolist()) <= {0.0, 1.0}:
                    # a valid table whose values are all 0 or 1 may be stored with an integer or boolean dtype: same outcome
                    base_c, base_e = _fit(fam, X.copy())
                    for dt in (np.int64, np.int8, np.uint8, bool):
                        c2, e2 = _fit(fam, X.astype(dt))
                        r.tr()
                        same = (type(base_e) is type(e2)) if (base_e is not None or e2 is not None) else \
                            (c2.theta == base_c.theta or (c2.theta != c2.theta and base_c.theta != base_c.theta)) and c2.tau == base_c.tau
                        if not same:
                            r.violation(f'C10:{fam}:dtype-dependence', f'{fam}.fit(n={n} pattern#{idx} closed) stored as '
                                        f'{np.dtype(dt).name}: {"raised " + type(e2).__name__ + ": " + str(e2)[:80] if e2 else (c2.theta, c2.tau)}'
                                        f', as float64: {"raised " + type(base_e).__name__ if base_e else (base_c.theta, base_c.tau)}',
                                        case=case, X=X)
                            break
                if n <= 3 and mapping == 'open':
                    # every small array with one entry pushed out of [0,1] must be refused
                    for (i, j, bad) in ((0, 0, -0.01), (n - 1, 1, 1.01), (0, 1, 1.7)) + TINY_EXCESS(n):
                        Y = X.copy()
                        Y[i, j] = bad
                        _check_fit(r, fam, Y, case, f'n={n} pattern#{idx} with entry [{i},{j}]={bad}')
        r.hit(f'n={n}', stop - start)
        r['sample'] = {'n': n, 'pattern_index': start, 'mapping': mapping,
                       'X': A.pattern_array(n, start, mapping).tolist()}
        return r
    if kind == 'huge':
        from scipy import stats as _st
        n = case[1]
        u = (np.arange(n) + 0.5) / n
        rk = (np.arange(n) * 7919) % n
        v = np.where(np.arange(n) % 2 == 0, u, (rk + 0.5) / n)          # even rows comonotone, odd rows scrambled
        X = np.column_stack([u, v])
        tref = float(_st.kendalltau(u, v)[0])          # (O(n log n) reference: the quadratic one is out of reach at this size)
        for fam in FAMS:
            cop, exc = _fit(fam, X.copy())
            r.tr()
            r.ev()
            r.nontriv()
            r.state(('huge', fam))
            if exc is not None:
                r.violation(f'C10:{fam}:raises:{type(exc).__name__}', f'{fam}.fit({n} rows, tau={tref:.4f}) raised {exc}', case=case)
            elif abs(float(cop.tau) - tref) > 1e-12:
                r.violation(f'C10:{fam}:tau', f'{fam}.fit({n} rows): model.tau={cop.tau!r} but Kendall tau-b of all rows is {tref!r}',
                            case=case)
            Y = X.copy()
            Y[n - 1, 1] = 1.5                              # an out-of-range value in the very last (odd) row
            c2, e2 = _fit(fam, Y)
            if not isinstance(e2, ValueError):
                r.violation(f'C10:{fam}:no-refusal:out-of-range', f'{fam}.fit({n} rows with the value 1.5 in the last row): expected '
                            f'ValueError, got {type(e2).__name__ if e2 else "a model"}', case=case)
        r.hit('huge')
        r['sample'] = {'n': n, 'tau': tref}
        return r
    if kind == 'near-monotone':
        _, n, sign, _, _ = case
        u = (np.arange(n) + 0.5) / n
        for where in (0, n // 2, n - 2):
            v = u.copy() if sign > 0 else 1 - u
            v[[where, where + 1]] = v[[where + 1, where]]
            X = np.column_stack([u, v])
            for fam in FAMS:
                _check_fit(r, fam, X, case, f'{"in" if sign > 0 else "de"}creasing n={n} with rows {where},{where + 1} swapped')
                r.state(('near-monotone', n, sign, where, fam))
        r.hit('near-monotone')
        r['sample'] = {'n': n, 'sign': sign, 'tau': sign * (1 - 4 / (n * (n - 1)))}
        return r
    if kind == 'designed':
        _, n, t, _, _ = case
        X = A.designed_tau_array(n, t)
        for fam in FAMS:
            _check_fit(r, fam, X, case, f'designed n={n} tau~{t}')
            r.state(('designed', t, fam))
            for bad in (-0.01, 1.01, float(np.nextafter(1.0, 2.0)), 1 + 1e-9, 1 + 5e-8, -1e-10, -5e-8, -5e-324, float('nan')):
                Y = X.copy()
                Y[n // 3, 1 if (bad > 1 or bad != bad) else 0] = bad
                _check_fit(r, fam, Y, case, f'designed n={n} tau~{t} with one entry {bad}')
                r.state(('designed-bad', t, fam, bad))
        r.hit('designed')
        r['sample'] = {'n': n, 'tau_target': t, 'tau_ref': K.tau_b(X[:, 0], X[:, 1])}
        return r
    # history: every ordered pair on one object vs a fresh object
    fam = case[2]
    data = _hist_data()
    from copulas.bivariate.base import Bivariate
    for n1, X1 in data:
        for n2, X2 in data:
            obj = Bivariate(copula_type=fam)
            try:
                obj.fit(X1.copy())
            except Exception:
                pass
            try:
                obj.fit(X2.copy())
                e1 = None
            except Exception as e:
                e1 = e
            fresh, e2 = _fit(fam, X2.copy())
            r.tr(3)
            r.ev()
            r.state(('hist', fam, n1, n2))
            same_exc = type(e1) is type(e2)
            same_val = True
            if e1 is None and e2 is None:
                same_val = (obj.tau == fresh.tau) and (obj.theta == fresh.theta or
                                                       abs(obj.theta - fresh.theta) <= 1e-9 * abs(fresh.theta))
            if not (same_exc and same_val):
                r.violation(f'C10:{fam}:refit-history', f'{fam}: fit({n1}) then fit({n2}) on one object gives '
                            f'{(type(e1).__name__ if e1 else (obj.tau, obj.theta))!r}, a fresh object gives '
                            f'{(type(e2).__name__ if e2 else (fresh.tau, fresh.theta))!r}', case=case)
    # ONE array object: fitted, refilled in place with another table of the same shape, fitted again (by the same object, by a new
    # object of the same family and by a sibling family): the fit describes the values the array holds NOW
    same_shape = [(n_, X_) for n_, X_ in data if X_.shape == data[2][1].shape]
    for n1, X1 in same_shape:
        for n2, X2 in same_shape:
            if n1 == n2:
                continue
            for who in ('same-object', 'new-object', 'sibling-first'):
                buf = X1.copy()
                first = Bivariate(copula_type=fam if who != 'sibling-first' else ('frank' if fam != 'frank' else 'gumbel'))
                try:
                    first.fit(buf)
                except Exception:
                    pass
                buf[:] = X2
                obj = first if who == 'same-object' else Bivariate(copula_type=fam)
                try:
                    obj.fit(buf)
                    e1 = None
                except Exception as e:
                    e1 = e
                fresh, e2 = _fit(fam, X2.copy())
                r.tr(3)
                r.ev()
                r.state(('refilled', fam, n1, n2, who))
                ok_ = type(e1) is type(e2) and (e1 is not None or (obj.tau == fresh.tau and (
                    obj.theta == fresh.theta or abs(obj.theta - fresh.theta) <= 1e-9 * abs(fresh.theta))))
                if not ok_:
                    r.violation(f'C10:{fam}:refilled-array', f'{fam}: an array holding {n1} was fitted, refilled in place with {n2} and '
                                f'fitted again ({who}): {(type(e1).__name__ if e1 else (obj.tau, obj.theta))!r}, a fresh array gives '
                                f'{(type(e2).__name__ if e2 else (fresh.tau, fresh.theta))!r}', case=case)
    if fam == 'frank':
        # a dense grid of (previous tau, new tau) refits: the calibration of the second fit never depends on the first
        taus = [round(-0.9 + 0.06 * i, 2) for i in range(31)]
        arrays = {t_: A.designed_tau_array(40, t_) for t_ in taus}
        fresh_theta = {}
        for t_ in taus:
            c_, e_ = _fit('frank', arrays[t_].copy())
            fresh_theta[t_] = None if e_ else float(c_.theta)
        nbad = 0
        for t1 in taus:
            for t2 in taus:
                obj = Bivariate(copula_type='frank')
                try:
                    obj.fit(arrays[t1].copy())
                    obj.fit(arrays[t2].copy())
                    got = float(obj.theta)
                except Exception:
                    got = None
                r.tr(2)
                r.ev()
                want = fresh_theta[t2]
                if (got is None) != (want is None) or (got is not None and abs(got - want) > 1e-6 * max(1.0, abs(want))):
                    nbad += 1
                    if nbad == 1:
                        r.violation('C10:frank:refit-grid', f'frank: fit(tau~{t1}) then fit(tau~{t2}) on one object gives theta={got!r}, '
                                    f'a fresh object gives {want!r}', case=case)
        r.add('frank_refit_pairs', len(taus) ** 2)
    r.nontriv(len(data) ** 2)
    r.hit('history-cases')
    r['sample'] = {'family': fam, 'history_alphabet': [n for n, _ in data]}
    return r


def finish(agg, tier):
    engine.require(agg['hits'].get('history-cases', 0) == 3, 'history cases missing')
    engine.require(agg['hits'].get('n=5', 0) >= 2 * 8656, 'n=5 patterns not exhausted')
    for k in ('refusal:constant-column', 'refusal:out-of-range', 'refusal:clayton-no-admissible-theta',
              'refusal:gumbel-no-admissible-theta', 'tau=+-1'):
        engine.require(agg['hits'].get(k, 0) > 0, f'branch {k} never reached')
