"""C03 - every fitted univariate obeys the laws of a distribution function.

E1: model zoo x dataset zoo x evaluation-point / probability alphabets. Oracles: monotonicity and range of the
CDF, pdf >= 0, quadrature of the real pdf against CDF increments on every inter-quantile interval, bracket
oracle for percent_point, round trip, log pdf, delegation identity against scipy; point-mass laws for constants.
"""
import numpy as np
from scipy import stats

from mc import alphabets as A
from mc import engine, uni
from mc.quadrature import adaptive1d

PROPERTY = 'C03'
LEVEL = 'exploration'
ENGINE = 'E1-product-explorer'
TECHNIQUE = ('bounded-exhaustive enumeration of model-configuration zoo x ideal-sample dataset zoo x evaluation-point '
             'and probability alphabets; oracles = distribution-function laws, adaptive quadrature of the real density, '
             'a bracket oracle for the quantile function and a bitwise delegation identity against scipy')
LEVEL_TEXT = ('every (model configuration, dataset) pair of the zoo is fitted with the real code and every law is '
              'evaluated on every point of the alphabet (~120 points, 33 probabilities, 40 integration intervals). Data '
              'sets outside the zoo are not covered: exploration.')
LEVEL_NOTE = ('trusted: scipy.stats distribution objects, own adaptive quadrature; tolerances as DESIGN.md C03 '
              '(bracket oracle implements "wherever the CDF is continuous at floating-point resolution")')
RULE = ('model zoo (6 scipy families, TruncatedGaussian +/- bounds, GaussianKDE x bw_method/sample_size/weights, '
        'Univariate x filters/candidate lists) x dataset zoo (10 shapes x 3 loc/scale x n) + constants; non-trivial = '
        'fit succeeded on non-constant data; distinct = distinct (model spec, dataset spec)')
ASSUMPTIONS = ['scipy.stats pdf/cdf/ppf are mutually consistent', 'datasets: ideal samples F^-1((i+1/2)/n)']

Q_INTERIOR = np.linspace(0.01, 0.99, 41)
Q33 = np.array([0.0, A.EPS32, 1e-6, 1e-3] + list(np.linspace(0.01, 0.99, 25)) +
               [1 - 1e-3, 1 - 1e-6, 1 - A.EPS32, 1.0])
SCIPY_OBJ = {'beta': stats.beta, 'gamma': stats.gamma, 'gaussian': stats.norm, 'loglaplace': stats.loglaplace,
             'student_t': stats.t, 'uniform': stats.uniform, 'truncated': stats.truncnorm}
TYPE_TO_FAM = {'BetaUnivariate': 'beta', 'GammaUnivariate': 'gamma', 'GaussianUnivariate': 'gaussian',
               'LogLaplace': 'loglaplace', 'StudentTUnivariate': 'student_t', 'UniformUnivariate': 'uniform',
               'TruncatedGaussian': 'truncated', 'GaussianKDE': 'kde'}


def bounds(tier):
    ns = (6, 200) if tier == 'quick' else (5, 6, 30, 200)
    return {'n': list(ns), 'models': len(uni.MODEL_ZOO_QUICK if tier == 'quick' else uni.MODEL_ZOO_THOROUGH),
            'datasets': len(uni.dataset_zoo(ns)), 'constants': len(uni.CONSTANTS)}


def cases(tier, seed):
    ns = (6, 200) if tier == 'quick' else (5, 6, 30, 200)
    zoo = uni.MODEL_ZOO_QUICK if tier == 'quick' else uni.MODEL_ZOO_THOROUGH
    out = []
    for m in zoo:
        for d in uni.dataset_zoo(ns):
            if m[0] == 'kde' and m[2] and d[3] < 10 and False:
                continue
            out.append(('laws', m, d))
        for c in uni.CONSTANTS:
            out.append(('const', m, c))
        # E2 layer: the same object was fitted (and queried) on something else before - the laws must hold all the same
        if not (m[0] == 'kde' and m[3]):                 # weighted KDEs are tied to one sample length
            for d in (('normal', 0.0, 1.0, 200), ('gamma2', -1e3, 1e3, 6)):
                for pre in ('const0', 'const3', 'other'):
                    out.append(('laws-after-' + pre, m, d))
    out.sort(key=lambda c: (c[1][0] != 'univariate',))   # slow ones first
    return out


def _name(m):
    return ':'.join(str(x) for x in m)


def run_case(case):
    kind, mspec, dspec = case
    r = engine.new_result()
    r.state((mspec, dspec))
    x = uni.dataset(dspec)
    model = uni.make_model(mspec, x)
    fam = mspec[0]
    sig = f'C03:{fam}'
    tag = f'{_name(mspec)} on {dspec}'
    r.tr()
    if kind.startswith('laws-after-'):
        pre = kind.split('-')[-1]
        x0 = {'const0': np.zeros(12), 'const3': np.full(12, 3.0),
              'other': uni.dataset(('uniform', 40.0, 7.0, 25))}[pre]
        try:
            np.random.seed(99)
            model.fit(x0.copy())
            for q in ('cumulative_distribution', 'probability_density'):
                getattr(model, q)(np.array([0.0, 1.0, 41.0]))
            model.percent_point(np.array([0.25, 0.5]))
        except Exception:
            pass
        r.hit('history-cases')
        tag += f' (object previously fitted on {pre} data and queried)'
        kind = 'laws'
        np.random.seed(12345)
    xfit = x.copy()                      # the caller's training buffer; overwritten further down
    try:
        model.fit(xfit)
    except Exception as e:
        r.outcome(f'fit-failed:{fam}:{type(e).__name__}')
        r.add(f'fitfail:{fam}')
        return r
    r.add(f'fitok:{fam}')
    if kind == 'const':
        return _const(r, model, float(dspec[1]), sig, tag, case)
    r.nontriv()
    r.hit(f'fam:{fam}')
    s = uni.fitted_scale(x)
    is_kde = type(model).__name__ == 'GaussianKDE' or \
        type(getattr(model, '_instance', None)).__name__ == 'GaussianKDE'

    # resolution of x = loc + scale * z in the fitted parametrisation (mis-specified MLE fits can have |loc| ~ 1e7 * s)
    try:
        _p = model.to_dict()
        res = 16 * np.finfo(float).eps * (abs(float(_p.get('loc', 0.0))) + abs(float(_p.get('scale', 0.0))))
    except Exception:
        res = 0.0
    tol_cdf = 1e-9 if is_kde else 1e-7      # scipy's special-function inverses are consistent to ~1e-8 in the far tails

    def call(name, arg, **kw):
        r.tr()
        return np.asarray(getattr(model, name)(arg, **kw), float)

    # ---- percent_point on the probability alphabet, one probability at a time -------------------------
    ppf = np.full(len(Q33), np.nan)
    raised = {}
    for i, q in enumerate(Q33):
        try:
            out = call('percent_point', np.array([q]))
            ppf[i] = out[0]
        except Exception as e:
            raised[i] = e
    r.ev(len(Q33))
    if raised:
        i = sorted(raised)[0]
        e = raised[i]
        why = 'other'
        if is_kde and isinstance(e, AssertionError):
            ds = np.asarray(model.to_dict()['dataset'], float)
            upper = ds.max() + 5 * ds.std()
            cu = float(call('cumulative_distribution', np.array([upper]))[0])
            if all(Q33[j] > cu for j in raised):
                why = 'q-above-cdf(upper-bound)'
        r.violation(f'{sig}:ppf-raises:{type(e).__name__}:{why}', f'{tag}: percent_point({Q33[i]!r}) raised '
                    f'{type(e).__name__}: {e}', case=case, probs=[float(Q33[j]) for j in raised])
    # ---- probabilities next to the ends (1e-15 ... 1 - 1.2e-16; scipy's own inverses misbehave for denormal probabilities, which are left out): never an error, and ordered with the quantiles above ----
    if not raised:
        ext_lo, ext_hi = [1e-15, 1e-12], [1 - 1e-12, 1 - 1e-15, 1 - 1.2e-16]
        for q in ext_lo + ext_hi:
            try:
                xq = float(call('percent_point', np.array([q]))[0])
            except Exception as e:
                r.violation(f'{sig}:ppf-raises:{type(e).__name__}:probability-next-to-{"0" if q < 0.5 else "1"}',
                            f'{tag}: percent_point({q!r}) raised {type(e).__name__}: {e}', case=case)
                break
            ref_q = ppf[4] if q < 0.5 else ppf[-5]          # the 0.01 / 0.99 quantiles
            if np.isnan(xq) or (q < 0.5 and xq > ref_q + 1e-9 * s) or (q > 0.5 and xq < ref_q - 1e-9 * s):
                r.violation(f'{sig}:ppf-extreme-probability', f'{tag}: percent_point({q!r}) = {xq!r} is not '
                            f'{"below" if q < 0.5 else "above"} the {"0.01" if q < 0.5 else "0.99"} quantile {ref_q!r}', case=case)
                break
        r.ev(5)
    okq = ~np.isnan(ppf)
    if np.isnan(ppf).any() and not raised:
        i = int(np.nonzero(np.isnan(ppf))[0][0])
        r.violation(f'{sig}:ppf-nan', f'{tag}: percent_point({Q33[i]!r}) = nan', case=case)
    pv = ppf[okq]
    if np.any(np.diff(pv) < -1e-9 * s):
        i = int(np.nonzero(np.diff(pv) < -1e-9 * s)[0][0])
        r.violation(f'{sig}:ppf-not-monotone', f'{tag}: percent_point decreases: q={Q33[okq][i]!r}->{pv[i]!r}, '
                    f'q={Q33[okq][i + 1]!r}->{pv[i + 1]!r}', case=case)
    # vector call agrees with the single calls
    safe = okq & (Q33 > 0) & (Q33 < 1)
    try:
        vec = call('percent_point', Q33[safe].copy())
        # two answers within the root finder's tolerance (1e-9 of the ~12 s wide bracket) of the same root
        same = (np.abs(vec - ppf[safe]) <= 1e-9 * np.abs(ppf[safe]) + 3e-8 * s) | (vec == ppf[safe])
        if not np.all(same):
            i = int(np.nonzero(~same)[0][0])
            r.violation(f'{sig}:ppf-not-elementwise', f'{tag}: percent_point({Q33[safe][i]!r}) is {vec[i]!r} in a vector '
                        f'and {ppf[safe][i]!r} alone', case=case)
    except Exception as e:
        r.violation(f'{sig}:ppf-vector-raises:{type(e).__name__}', f'{tag}: vector percent_point raised {e}', case=case)

    # ---- evaluation points ------------------------------------------------------------------------------
    try:
        xq = call('percent_point', Q_INTERIOR.copy())
    except Exception:
        xq = np.quantile(x, Q_INTERIOR)
    xs = np.sort(x)
    mids = 0.5 * (xs[:-1] + xs[1:])
    if len(mids) > 40:
        mids = mids[np.linspace(0, len(mids) - 1, 40).astype(int)]
    xsub = xs if len(xs) <= 60 else xs[np.linspace(0, len(xs) - 1, 60).astype(int)]
    far = [xs[0] - 10 * s, xs[-1] + 10 * s, np.mean(x) - 1e6 * s, np.mean(x) + 1e6 * s]
    pts = np.unique(np.concatenate([xq[np.isfinite(xq)], xsub, mids, far]))
    P = pts
    cdf = call('cumulative_distribution', P.copy())
    pdf = call('probability_density', P.copy())
    r.ev(2 * len(P))
    if np.isnan(cdf).any() or cdf.min() < -1e-6 or cdf.max() > 1 + 1e-6:
        i = int(np.nanargmax(np.abs(cdf - 0.5))) if not np.isnan(cdf).any() else int(np.nonzero(np.isnan(cdf))[0][0])
        r.violation(f'{sig}:cdf-range', f'{tag}: cdf({P[i]!r}) = {cdf[i]!r}', case=case)
    elif np.any(np.diff(cdf) < -1e-12):
        i = int(np.nonzero(np.diff(cdf) < -1e-12)[0][0])
        r.violation(f'{sig}:cdf-not-monotone', f'{tag}: cdf({P[i]!r})={cdf[i]!r} > cdf({P[i + 1]!r})={cdf[i + 1]!r}',
                    case=case)
    else:
        # power tails (LogLaplace with a small fitted c) are legitimate, so the limits are taken at +-inf
        far_lo, far_hi = call('cumulative_distribution', np.array([-np.inf, np.inf]))
        if not (far_lo <= 1e-6 and far_hi >= 1 - 1e-6 and cdf[0] >= far_lo - 1e-12 and cdf[-1] <= far_hi + 1e-12):
            r.violation(f'{sig}:cdf-limits', f'{tag}: cdf(-inf)={far_lo!r}, cdf(inf)={far_hi!r}', case=case)
    if np.isnan(pdf).any() or np.nanmin(pdf) < 0:
        i = int(np.nonzero(np.isnan(pdf) | (pdf < 0))[0][0])
        r.violation(f'{sig}:pdf-negative-or-nan', f'{tag}: pdf({P[i]!r}) = {pdf[i]!r}', case=case)

    # ---- container independence: a Series with a permuted integer index means the same values, by position ------------
    import pandas as pd
    fin_pts = pts[np.isfinite(pts)]
    lab = np.argsort((np.arange(len(fin_pts)) * 7919) % len(fin_pts), kind='stable')
    qser = np.array([0.9, 0.05, 0.5, 0.25, 0.75, 0.6, 0.1, 0.35])
    for meth in ('cumulative_distribution', 'probability_density', 'percent_point'):
        try:
            arg = qser if meth == 'percent_point' else fin_pts
            lab_ = np.argsort((np.arange(len(arg)) * 7919) % len(arg), kind='stable') + (100 if meth == 'percent_point' else 0)
            a = np.asarray(getattr(model, meth)(arg.copy()), float)
            b = np.asarray(getattr(model, meth)(pd.Series(arg.copy(), index=lab_)), float)
            r.tr(2)
            if a.shape != b.shape or not np.array_equal(a, b, equal_nan=True):
                r.violation(f'{sig}:container-dependence:{meth}', f'{tag}: {meth} of a Series with a permuted index differs from '
                            f'the same values as an array', case=case)
        except Exception as e:
            r.violation(f'{sig}:container-raises:{type(e).__name__}', f'{tag}: {meth}(Series) raised {type(e).__name__}: {e}',
                        case=case)

    # ---- integral of the density over every inter-quantile interval ---------------------------------------
    xi = np.unique(xq[np.isfinite(xq)])
    if len(xi) >= 2:
        ci = call('cumulative_distribution', xi.copy())
        pi_ = call('probability_density', xi.copy())
        done = excluded = 0
        for k in range(len(xi) - 1):
            a, b = xi[k], xi[k + 1]
            # an interval narrower than 1e-6 data standard deviations carrying >= 1% of the mass is a CDF jump at
            # floating-point resolution (mis-specified MLE fits); the law is only stated for regular intervals
            if not (1e4 * s > b - a > 1e-6 * s + 1e3 * res) or not np.isfinite(pi_[k]) or \
                    not np.isfinite(pi_[k + 1]):
                excluded += 1
                continue
            val, est, n = adaptive1d(lambda t: np.asarray(model.probability_density(t), float), a, b,
                                     rtol=1e-7, atol=1e-11, maxdepth=8)
            r.ev(n)
            done += 1
            d = ci[k + 1] - ci[k]
            if not abs(val - d) <= 2e-6 + 10 * est:
                r.violation(f'{sig}:pdf-integral', f'{tag}: integral of pdf over [{a!r},{b!r}] = {val!r} but cdf increment '
                            f'= {d!r}', case=case, quad_err=est)
                break
        r.add('integral_intervals', done)
        r.add('integral_excluded', excluded)

    # ---- inverse laws ---------------------------------------------------------------------------------
    delta_rel = 1e-9
    for i, q in enumerate(Q33):
        if not (0 < q < 1) or np.isnan(ppf[i]) or not np.isfinite(ppf[i]):
            continue
        xx = ppf[i]
        d = delta_rel * (abs(xx) + s) + res
        lo, hi = call('cumulative_distribution', np.array([xx - d, xx + d]))
        r.ev()
        tq = tol_cdf if (is_kde or 1e-4 <= q <= 1 - 1e-4) else tol_cdf + 0.25 * min(q, 1 - q)
        if not (lo - tq <= q <= hi + tq):
            r.violation(f'{sig}:ppf-not-inverse', f'{tag}: x=percent_point({q!r})={xx!r} but cdf(x-d)={lo!r}, cdf(x+d)='
                        f'{hi!r} do not bracket q', case=case)
            break
    cand = xsub[(np.interp(xsub, P, pdf) > 0)]
    if len(cand):
        cc = call('cumulative_distribution', cand.copy())
        keep = (cc >= 1e-6) & (cc <= 1 - 1e-6) & (call('probability_density', cand.copy()) > 0)
        cand, cc = cand[keep], cc[keep]
        if len(cand):
            try:
                back = call('percent_point', cc.copy())
                c2 = call('cumulative_distribution', back.copy())
                bad = ~((np.abs(back - cand) <= 1e-6 * s + res) | (np.abs(c2 - cc) <= tol_cdf))
                r.ev(len(cand))
                if bad.any():
                    i = int(np.nonzero(bad)[0][0])
                    r.violation(f'{sig}:ppf-cdf-roundtrip', f'{tag}: percent_point(cdf({cand[i]!r})) = {back[i]!r}',
                                case=case)
            except Exception as e:
                if not raised:
                    r.violation(f'{sig}:ppf-raises:{type(e).__name__}:roundtrip', f'{tag}: percent_point(cdf(x)) raised '
                                f'{type(e).__name__}: {e}', case=case)

    # ---- log pdf ---------------------------------------------------------------------------------------
    fin = pts[np.isfinite(pts)]
    pf = call('probability_density', fin.copy())
    pos = (pf > 1e-290) & np.isfinite(pf)      # below that pdf is denormal and log(pdf) is not a reference
    try:
        lp = call('log_probability_density', fin.copy())
        bad = ~(np.abs(lp[pos] - np.log(pf[pos])) <= 1e-6 * np.maximum(1, np.abs(np.log(pf[pos]))))
        r.ev(int(pos.sum()))
        if bad.any():
            i = int(np.nonzero(bad)[0][0])
            r.violation(f'{sig}:logpdf', f'{tag}: log_probability_density({fin[pos][i]!r})={lp[pos][i]!r} but log(pdf)='
                        f'{np.log(pf[pos][i])!r}', case=case)
    except Exception as e:
        r.violation(f'{sig}:logpdf-raises:{type(e).__name__}', f'{tag}: log_probability_density raised '
                    f'{type(e).__name__}: {e}', case=case)

    # ---- KDE: bisect solver ------------------------------------------------------------------------------
    if type(model).__name__ == 'GaussianKDE':
        qs = Q33[(Q33 >= 1e-3) & (Q33 <= 1 - 1e-3)]
        try:
            xb = call('percent_point', qs.copy(), method='bisect')
            d = 2e-8 + 1e-9 * np.abs(xb)
            lo = call('cumulative_distribution', xb - d)
            hi = call('cumulative_distribution', xb + d)
            bad = ~((lo - 1e-9 <= qs) & (qs <= hi + 1e-9))
            r.ev(len(qs))
            if bad.any():
                i = int(np.nonzero(bad)[0][0])
                r.violation(f'{sig}:ppf-bisect-not-inverse', f'{tag}: percent_point({qs[i]!r}, method="bisect")={xb[i]!r} '
                            f'but cdf(x-d)={lo[i]!r}, cdf(x+d)={hi[i]!r}', case=case)
        except Exception as e:
            r.violation(f'{sig}:ppf-bisect-raises:{type(e).__name__}', f'{tag}: bisect percent_point raised {e}', case=case)
        # ... on batches without any interior probability (only 0 / 1, a lone end, the empty batch): the same answers as
        # the default solver
        for bname, batch in (('[0, 1]', np.array([0.0, 1.0])), ('[0]', np.array([0.0])), ('[1]', np.array([1.0])),
                             ('empty', np.array([], dtype=float)), ('[1, 0.5, 0]', np.array([1.0, 0.5, 0.0]))):
            try:
                xd = np.asarray(call('percent_point', batch.copy()), float)
                xb = np.asarray(call('percent_point', batch.copy(), method='bisect'), float)
                r.tr(2)
                okb = xd.shape == xb.shape and np.all((xd == xb) | (np.abs(xd - xb) <= 5e-8 + 1e-6 * s + res))
                if not okb:
                    r.violation(f'{sig}:ppf-bisect-end-batches', f'{tag}: percent_point({bname}, method="bisect") = {xb.tolist()} '
                                f'but the default solver gives {xd.tolist()}', case=case)
            except Exception as e:
                r.violation(f'{sig}:ppf-bisect-raises:{type(e).__name__}:end-batch', f'{tag}: percent_point({bname}, '
                            f'method="bisect") raised {type(e).__name__}: {e}', case=case)
        r.hit('kde-bisect')

    # ---- probabilities given as an INTEGER array (0 and 1 are probabilities): the quantiles of 0.0 and 1.0 --------------
    try:
        qi = np.asarray(call('percent_point', np.array([0, 1])), float)
        qf = np.asarray(call('percent_point', np.array([0.0, 1.0])), float)
        r.tr(2)
        if not np.array_equal(qi, qf, equal_nan=True):
            r.violation(f'{sig}:ppf-integer-probabilities', f'{tag}: percent_point(array([0, 1])) = {qi.tolist()} but '
                        f'percent_point(array([0., 1.])) = {qf.tolist()}', case=case)
    except Exception as e:
        if not raised:
            r.violation(f'{sig}:ppf-raises:{type(e).__name__}:integer-probabilities', f'{tag}: percent_point(array([0, 1])) '
                        f'raised {type(e).__name__}: {e}', case=case)

    # ---- the fitted model keeps no live reference to the caller's training buffer ------------------------------
    try:
        b_cdf = np.asarray(model.cumulative_distribution(fin.copy()), float)
        b_pdf = np.asarray(model.probability_density(fin.copy()), float)
        if not np.array_equal(xfit, x):
            r.violation(f'{sig}:training-data-modified', f'{tag}: fit / queries modified the training array', case=case)
        xfit[:] = 123.456 + np.arange(len(xfit))
        a_cdf = np.asarray(model.cumulative_distribution(fin.copy()), float)
        a_pdf = np.asarray(model.probability_density(fin.copy()), float)
        r.tr(4)
        if not (np.array_equal(a_cdf, b_cdf, equal_nan=True) and np.array_equal(a_pdf, b_pdf, equal_nan=True)):
            r.violation(f'{sig}:model-aliases-training-buffer', f'{tag}: cdf / pdf changed after the caller overwrote the array '
                        f'that had been passed to fit', case=case)
    except Exception as e:
        r.violation(f'{sig}:raises-after-buffer-overwrite:{type(e).__name__}', f'{tag}: query after the training array was '
                    f'overwritten raised {type(e).__name__}: {e}', case=case)

    # ---- the documented shortcuts pdf / cdf / ppf are the same functions as the long names ------------------
    for short, long_, arg in (('pdf', 'probability_density', fin), ('cdf', 'cumulative_distribution', fin), ('ppf', 'percent_point', Q33)):
        try:
            a1 = np.asarray(getattr(model, short)(arg.copy()), float)
            a2 = np.asarray(getattr(model, long_)(arg.copy()), float)
        except Exception:
            continue          # failures of the long names are reported above
        r.tr(2)
        if not np.array_equal(a1, a2, equal_nan=True):
            r.violation(f'{sig}:shortcut:{short}', f'{tag}: {short}(x) differs from {long_}(x)', case=case)

    # ---- delegation identity (scipy-backed families, also behind the wrapper) ----------------------------
    params = dict(model.to_dict())
    tname = params.pop('type').rsplit('.', 1)[1]
    dfam = TYPE_TO_FAM.get(tname)
    r.outcome(f'{fam}->{tname}')
    if dfam in SCIPY_OBJ:
        obj = SCIPY_OBJ[dfam]
        try:
            with np.errstate(all='ignore'):
                e_cdf, e_pdf, e_ppf = obj.cdf(fin, **params), obj.pdf(fin, **params), obj.ppf(Q33, **params)
        except TypeError:
            # the serialised parameter names are no longer scipy's keyword names: the identity cannot be formed (this is
            # not a violation of C03; the laws above still decide)
            r.hit('delegation-not-applicable')
            return r
        g_ppf = ppf
        same = lambda a, b: np.array_equal(np.asarray(a, float), np.asarray(b, float), equal_nan=True)  # noqa
        fc = call('cumulative_distribution', fin.copy())
        if not (same(fc, e_cdf) and same(pf, e_pdf) and same(g_ppf[okq], e_ppf[okq])):
            which = 'cdf' if not same(fc, e_cdf) else 'pdf' if not same(pf, e_pdf) else 'ppf'
            r.violation(f'{sig}:delegation:{which}', f'{tag}: {which} differs from scipy {dfam}.{which}(x, **to_dict params)',
                        case=case, params=params)
        r.hit('delegation-checked')
        r.ev(3 * len(fin))
    r['sample'] = {'model': list(mspec), 'dataset': list(dspec), 'selected_type': tname,
                   'cdf_at_median_point': float(cdf[len(cdf) // 2])}
    return r


def _const(r, model, c, sig, tag, case):
    r.hit('constant-cases')
    step = max(abs(c), 1.0) * 1e-9
    pts = np.array([c - 1.0, c - step, c, c + step, c + 1.0])
    try:
        cdf = np.asarray(model.cumulative_distribution(pts.copy()), float)
        ppf = np.asarray(model.percent_point(np.array([0.0, 0.01, 0.5, 0.99, 1.0])), float)
        s1 = np.asarray(model.sample(1), float)
        s7 = np.asarray(model.sample(7), float)
        r.tr(4)
        r.ev(4)
    except Exception as e:
        r.violation(f'{sig}:constant:raises:{type(e).__name__}', f'{tag}: a query on the constant-fitted model raised '
                    f'{type(e).__name__}: {e}', case=case)
        return r
    if not np.array_equal(cdf, [0, 0, 1, 1, 1]):
        r.violation(f'{sig}:constant:cdf', f'{tag}: cdf at {pts.tolist()} = {cdf.tolist()} is not the unit step at {c}',
                    case=case)
    if not (np.all(ppf == c) and ppf.shape == (5,)):
        r.violation(f'{sig}:constant:ppf', f'{tag}: percent_point = {ppf.tolist()}, expected all {c}', case=case)
    # the point mass sits at c whatever the dtype of the probability array (integer 0 / 1, float16, float32)
    for pname, probs in (('int64 [0, 1]', np.array([0, 1])), ('float16', np.array([0.25, 0.5, 1.0], dtype=np.float16)),
                         ('float32', np.array([0.0, 0.75], dtype=np.float32))):
        try:
            q = np.asarray(model.percent_point(probs), float)
            r.tr()
            if not (q.shape == (len(probs),) and np.all(q == c)):
                r.violation(f'{sig}:constant:ppf:probability-dtype', f'{tag}: percent_point of {pname} probabilities = {q.tolist()}, '
                            f'expected all {c}', case=case)
        except Exception as e:
            r.violation(f'{sig}:constant:raises:{type(e).__name__}', f'{tag}: percent_point of {pname} probabilities raised '
                        f'{type(e).__name__}: {e}', case=case)
    if not (s1.shape == (1,) and s7.shape == (7,) and np.all(s1 == c) and np.all(s7 == c)):
        r.violation(f'{sig}:constant:sample', f'{tag}: sample(1)={s1.tolist()}, sample(7)={s7.tolist()}, expected {c}',
                    case=case)
    # the same constant (when it is a small non-negative integer) given as UNSIGNED / NARROW integer data and queried at integer
    # points of the same dtype: still the unit step at c
    if float(c).is_integer() and 1 <= c <= 100:
        ci = int(c)
        for dt in (np.uint8, np.uint16, np.uint64, np.int8):
            data = np.full(12, ci, dtype=dt)
            pts_i = np.array([0, max(ci - 1, 0), ci, ci + 1, 120], dtype=dt)
            want = [0.0 if v < ci else 1.0 for v in pts_i.tolist()]
            try:
                import copy
                m2 = copy.deepcopy(model)
                m2.fit(data)
                got = np.asarray(m2.cumulative_distribution(pts_i.copy()), float)
                qq = np.asarray(m2.percent_point(np.array([0.0, 0.5, 1.0])), float)
                r.tr(3)
            except Exception as e:
                r.violation(f'{sig}:constant:integer-data:raises:{type(e).__name__}', f'{tag}: refitted on constant {dt.__name__} data '
                            f'{ci}: raised {type(e).__name__}: {e}', case=case)
                continue
            if got.tolist() != want or not np.all(qq == ci):
                r.violation(f'{sig}:constant:integer-data', f'{tag}: fitted on constant {dt.__name__} data {ci}: cdf at '
                            f'{pts_i.tolist()} ({dt.__name__}) = {got.tolist()}, expected {want}; percent_point = {qq.tolist()}',
                            case=case)
    r.outcome('constant')
    return r


def finish(agg, tier):
    ex = agg['extra']
    for fam in ('beta', 'gamma', 'gaussian', 'loglaplace', 'student_t', 'uniform', 'truncated', 'kde', 'univariate'):
        ok, bad = ex.get(f'fitok:{fam}', 0), ex.get(f'fitfail:{fam}', 0)
        engine.require(ok >= 0.6 * (ok + bad) and ok >= 20, f'{fam}: only {ok}/{ok + bad} fits succeeded')
    engine.require(agg['hits'].get('delegation-checked', 0) >= 200, 'delegation identity under-explored')
    engine.require(agg['hits'].get('kde-bisect', 0) >= 50, 'bisect solver under-explored')
    engine.require(ex.get('integral_intervals', 0) >= 5000, 'integral intervals under-explored')
    engine.require(agg['hits'].get('constant-cases', 0) >= 100, 'constant cases under-explored')
    engine.require(agg['hits'].get('history-cases', 0) >= 60, 'history cases under-explored')
