"""C04 - marginal fitting recovers the generating law; the KDE is the kernel estimate.

E1: family-member grid x (loc, scale) pairs x n, ideal samples; DKW-band recovery, exact closed-form estimators,
support laws for bounded families, TruncatedGaussian user bounds, KDE == reference weighted kernel sum (also for
the resample drawn under a seeded global stream).
"""
import numpy as np
from scipy import stats

from mc import alphabets as A
from mc import engine
from mc.ref import kde as refkde

PROPERTY = 'C04'
LEVEL = 'exploration'
ENGINE = 'E1-product-explorer'
TECHNIQUE = ('bounded-exhaustive enumeration of family-member grid x (loc,scale) pairs x sample sizes with ideal '
             '(deterministic) samples; oracles = DKW band against generating and empirical CDF, exact closed-form '
             'estimators, support laws, definition-level weighted Gaussian kernel sum')
LEVEL_TEXT = ('every member of the enumerated parameter grid is fitted by the real code and compared with the generating '
              'law on a 199-point quantile grid; the KDE density is compared pointwise with the kernel sum from the '
              'definition. Members between grid points and random (non-ideal) samples are not enumerated: exploration.')
LEVEL_NOTE = ('trusted: scipy.stats frozen distributions as generating laws, scipy gaussian_kde.resample as the twin for '
              'sample_size; MLE families need >= 80% of datasets inside the band (property text)')
RULE = ('family x member grid x (loc,scale) x n in {200,1000(,5000)}; KDE: bw_method x weights x sample_size x datasets; '
        'non-trivial = fit succeeded; distinct = distinct (family, member, loc, scale, n)')
ASSUMPTIONS = ['ideal samples F^-1((i+1/2)/n) stand for "a sample from F" (KS distance 1/(2n))',
               'DKW constant 3.27 = sqrt(ln(2/1e-9)/2)']

LS6 = [(0.0, 1.0), (0.0, 0.01), (0.0, 1000.0), (3.0, 2.0), (100.0, 1000.0), (-10.0, 4.0)]
LS_EXTRA = [(1e6, 1.0), (0.0, 1e-9)]
# supports far from the origin relative to their width (bounded / semi-bounded MLE families start from the data range)
LS_OFFSET = {'beta': [(100.0, 2.0), (-300.0, 1.5), (1e4, 10.0), (-7.0, 0.05)], 'gamma': [(100.0, 2.0), (-300.0, 1.5)]}
MEMBERS = {
    'gaussian': [()],
    'uniform': [()],
    'beta': [(a, b) for a in (0.5, 1.0, 2.0, 5.0) for b in (0.5, 1.0, 3.0)],
    'gamma': [(a,) for a in (0.5, 1.0, 2.0, 5.0, 20.0)],
    'student_t': [(d,) for d in (1.3, 2.0, 3.0, 5.0, 10.0, 30.0)],
    'loglaplace': [(c,) for c in (1.5, 2.0, 3.0, 5.0, 10.0)],
    'truncated': [(-1.0, 1.0), (-2.0, 0.5), (0.0, 3.0)],
}
GEN = {'gaussian': stats.norm, 'uniform': stats.uniform, 'beta': stats.beta, 'gamma': stats.gamma,
       'student_t': stats.t, 'loglaplace': stats.loglaplace, 'truncated': stats.truncnorm}
EXACT = ('gaussian', 'uniform', 'truncated')
MLE = ('beta', 'gamma', 'student_t', 'loglaplace')


EPS32 = float(np.finfo(np.float32).eps)


def bounds(tier):
    return {'n': [200, 1000] if tier == 'quick' else [200, 1000, 5000],
            'members': {k: len(v) for k, v in MEMBERS.items()}, 'locscale_pairs': len(LS6), 'extra_pairs': len(LS_EXTRA)}


def cases(tier, seed):
    ns = (200, 1000) if tier == 'quick' else (200, 1000, 5000)
    out = []
    for fam, mem in MEMBERS.items():
        for m in mem:
            for ls in LS6 + (LS_EXTRA if fam in EXACT else []) + LS_OFFSET.get(fam, []):
                for n in ns:
                    out.append(('recover', fam, m, ls, n))
            # E2 layer: the object was fitted on another member (and queried) before
            out.append(('recover-refit', fam, m, LS6[3], ns[0]))
            # ... or on the constant 0 before; or was re-created from its own dict after an earlier fit
            out.append(('recover-refit-const0', fam, m, LS6[0], ns[0]))
            out.append(('recover-refit-roundtrip', fam, m, LS6[3], ns[0]))
    for bw in (None, 'scott', 'silverman', 0.3, 1.0):
        for weighted in (False, True):
            for ss in (None, 5, 20):
                if weighted and ss:
                    continue
                for shape in ('normal', 'gamma2', 'bimodal', 'ties'):
                    for ls in ((0.0, 1.0), (5.0, 1e-3), (1e6, 1.0)):
                        for n in (6, 50, 200):
                            out.append(('kde', bw, weighted, ss, (shape, ls[0], ls[1], n)))
    # a long column in a periodic order (lower half / upper half alternating): every row is a kernel centre
    for bw in (None, 0.3):
        out.append(('kde', bw, False, None, ('alternating', 0.0, 1.0, 4501)))
    return out


def _model(fam):
    from mc import uni
    return uni.make_model((fam,))


def run_case(case):
    r = engine.new_result()
    r.state(case)
    if case[0] == 'kde':
        return _kde(r, case)
    kind_, fam, mem, (loc, scale), n = case
    sig = f'C04:{fam}'
    gen = GEN[fam](*mem, loc=loc, scale=scale)
    x = np.asarray(gen.ppf(A.midpoints(n)), float)
    tag = f'{fam}{mem} loc={loc} scale={scale} n={n}'
    model = _model(fam)
    r.tr()
    if kind_ == 'recover-refit':
        other = GEN[fam](*MEMBERS[fam][-1], loc=-40.0, scale=9.0)
        try:
            model.fit(np.asarray(other.ppf(A.midpoints(150)), float))
            model.cumulative_distribution(np.array([-40.0, -35.0]))
            model.percent_point(np.array([0.3, 0.6]))
            model.probability_density(np.array([-38.0]))
        except Exception:
            pass
        tag += ' (object previously fitted on another member and queried)'
        r.hit('refit-history')
    if kind_ == 'recover-refit-const0':
        try:
            model.fit(np.zeros(20))
            model.cumulative_distribution(np.array([-1.0, 0.0, 1.0]))
        except Exception:
            pass
        tag += ' (object previously fitted on the constant 0)'
        r.hit('refit-history')
    if kind_ == 'recover-refit-roundtrip':
        # narrower data first, then the object is re-created from its dict, then fitted on the wider data of this case
        narrow = np.asarray(gen.ppf(0.35 + 0.3 * A.midpoints(60)), float)
        try:
            model.fit(narrow)
            model = type(model).from_dict(model.to_dict())
        except Exception as e:
            r.outcome(f'{fam}:roundtrip-prehistory-failed:{type(e).__name__}')
        tag += ' (object fitted on the central 30 % of the law, re-created by from_dict(to_dict()), then fitted on this sample)'
        r.hit('refit-history')
    try:
        model.fit(x.copy())
    except Exception as e:
        if kind_ == 'recover':
            r.add(f'n:{fam}')
        r.outcome(f'{fam}:fit-raised:{type(e).__name__}')
        if fam in EXACT:
            r.violation(f'{sig}:fit-raises:{type(e).__name__}', f'{tag}: fit raised {type(e).__name__}: {e}', case=case)
        return r
    r.nontriv()
    qs = np.arange(1, 200) / 200.0
    pts = np.asarray(gen.ppf(qs), float)
    F_fit = np.asarray(model.cumulative_distribution(pts.copy()), float)
    F_emp = np.searchsorted(np.sort(x), pts, side='right') / n
    r.tr()
    r.ev(2 * len(pts))
    d_true = float(np.max(np.abs(F_fit - qs)))
    d_emp = float(np.max(np.abs(F_fit - F_emp)))
    band = 3.27 / np.sqrt(n)
    ok = (d_true <= band) and (d_emp <= band) and np.all(np.isfinite(F_fit))
    if kind_ == 'recover':
        # the 80 % rule of the MLE families is taken over the data-set alphabet itself; objects with a history are instead
        # required to fit exactly like a fresh object (below)
        r.add(f'n:{fam}')
        r.add(f'ok:{fam}', int(ok))
        if not ok:
            r['extra'][f'failpairs:{fam}:{loc}:{scale}'] = 1
    else:
        fresh = _model(fam)
        try:
            fresh.fit(x.copy())
            F_fresh = np.asarray(fresh.cumulative_distribution(pts.copy()), float)
            r.tr(2)
            if not np.allclose(F_fit, F_fresh, rtol=0, atol=1e-9, equal_nan=True):
                r.violation(f'{sig}:refit-differs-from-fresh', f'{tag}: the fitted CDF differs from that of a fresh object fitted '
                            f'on the same sample by {float(np.nanmax(np.abs(F_fit - F_fresh))):.3g}', case=case)
        except Exception:
            pass
    r['extra'][f'max_dist_{fam}_x1000'] = max(d_true, d_emp) * 1000 if np.isfinite(d_true) else 1e9
    r.outcome(f'{fam}:{"in-band" if ok else "out-of-band"}')
    wrange = float(x.max() - x.min())
    bucket = 'data-range<1' if wrange < 1 else 'data-range>=1'
    if not ok and fam in EXACT:
        r.violation(f'{sig}:recovery:{bucket}', f'{tag}: sup|F_fit-F_true|={d_true:.4f}, sup|F_fit-F_emp|={d_emp:.4f} exceed the '
                    f'DKW band {band:.4f}', case=case, params=model.to_dict())
    p = dict(model.to_dict())
    p.pop('type')
    w = x.max() - x.min()
    if fam == 'gaussian':
        if not (abs(p['loc'] - np.mean(x)) <= 1e-12 * max(1, abs(np.mean(x))) and
                abs(p['scale'] - np.std(x)) <= 1e-12 * np.std(x)):
            r.violation(f'{sig}:estimator', f'{tag}: loc={p["loc"]!r}, scale={p["scale"]!r} but mean={np.mean(x)!r}, '
                        f'population std={np.std(x)!r}', case=case)
        r.hit('exact-gaussian')
    if fam == 'uniform':
        if not (p['loc'] == x.min() and p['scale'] == x.max() - x.min()):
            r.violation(f'{sig}:estimator', f'{tag}: loc={p["loc"]!r}, scale={p["scale"]!r} but min={x.min()!r}, range='
                        f'{x.max() - x.min()!r}', case=case)
        r.hit('exact-uniform')
    # bounded families: no mass outside the fitted support
    if fam in ('beta', 'uniform', 'truncated'):
        if fam == 'truncated':
            lo, hi = p['loc'] + p['a'] * p['scale'], p['loc'] + p['b'] * p['scale']
        else:
            lo, hi = p['loc'], p['loc'] + p['scale']
        e = 1e-9 * (abs(lo) + abs(hi) + w)
        c = np.asarray(model.cumulative_distribution(np.array([lo - e, lo - 1e3 * w, hi + e, hi + 1e3 * w])), float)
        d = np.asarray(model.probability_density(np.array([lo - e - 1e-3 * w, hi + e + 1e-3 * w])), float)
        q = np.asarray(model.percent_point(np.array([0.0, 1.0])), float)
        r.tr(3)
        r.ev(8)
        if not (np.all(c[:2] == 0) and np.all(c[2:] == 1) and np.all(d == 0) and
                abs(q[0] - lo) <= 10 * e and abs(q[1] - hi) <= 10 * e):
            r.violation(f'{sig}:mass-outside-support', f'{tag}: fitted support [{lo!r},{hi!r}] but cdf(outside)={c.tolist()}, '
                        f'pdf(outside)={d.tolist()}, ppf(0,1)={q.tolist()}', case=case)
        np.random.seed(3)
        smp = np.asarray(model.sample(200), float)
        if smp.min() < lo - e or smp.max() > hi + e:
            r.violation(f'{sig}:sample-outside-support', f'{tag}: sample range [{smp.min()!r},{smp.max()!r}] leaves the '
                        f'fitted support [{lo!r},{hi!r}]', case=case)
        r.hit('support-checked')
    # TruncatedGaussian honours user-supplied bounds
    if fam == 'truncated':
        import copulas.univariate as U
        # the user states the true support of the generating law
        a, b = (float(v) for v in gen.support())
        tg = U.TruncatedGaussian(minimum=a, maximum=b)
        r.tr()
        tg.fit(x.copy())
        pp = tg.to_dict()
        lo, hi = pp['loc'] + pp['a'] * pp['scale'], pp['loc'] + pp['b'] * pp['scale']
        e = 1e-9 * (abs(a) + abs(b) + w)
        c = np.asarray(tg.cumulative_distribution(np.array([a, b, a - e - 1e-3 * w, b + e + 1e-3 * w])), float)
        q = np.asarray(tg.percent_point(np.array([0.0, 1.0])), float)
        F2 = np.asarray(tg.cumulative_distribution(pts.copy()), float)
        r.ev(6 + len(pts))
        if not (abs(lo - a) <= e and abs(hi - b) <= e and c[0] <= 1e-12 and c[1] >= 1 - 1e-12 and c[2] == 0 and c[3] == 1
                and abs(q[0] - a) <= 10 * e and abs(q[1] - b) <= 10 * e):
            r.violation(f'{sig}:user-bounds', f'{tag}: TruncatedGaussian(minimum={a!r}, maximum={b!r}) has support '
                        f'[{lo!r},{hi!r}], cdf(a,b,out,out)={c.tolist()}, ppf(0,1)={q.tolist()}', case=case)
        d2 = float(np.max(np.abs(F2 - F_emp)))
        if not d2 <= band:
            r.violation(f'{sig}:user-bounds-recovery:{bucket}', f'{tag}: with user bounds sup|F_fit-F_emp|={d2:.4f} > {band:.4f}',
                        case=case, params=pp)
        # one bound at the true support, the other far away (a one-sided truncation stated with a generous other bound)
        # (only a bound that is IMMATERIAL for the generating law - at least 3 standard deviations out - may be replaced: moving a
        # material truncation point away makes the model family a different one, which cannot recover the law; a thorough run
        # alarmed on exactly that for the members (0, 3) / far-lower and (-2, 0.5) / far-upper, and the clause was narrowed)
        if w >= 1.0:
            for which, (aa, bb) in (('far-upper', (a, b + 50.0 * w)), ('far-lower', (a - 50.0 * w, b))):
                if (which == 'far-upper' and mem[1] < 3.0) or (which == 'far-lower' and mem[0] > -3.0):
                    continue
                far = U.TruncatedGaussian(minimum=aa, maximum=bb)
                r.tr()
                try:
                    far.fit(x.copy())
                    Ff = np.asarray(far.cumulative_distribution(pts.copy()), float)
                    r.ev(len(pts))
                    dfar = float(np.max(np.abs(Ff - F_emp)))
                    if not dfar <= band:
                        r.violation(f'{sig}:user-bounds-recovery:{which}', f'{tag}: with bounds [{aa!r},{bb!r}] sup|F_fit-F_emp|='
                                    f'{dfar:.4f} > {band:.4f}', case=case)
                except Exception as ex:
                    r.violation(f'{sig}:user-bounds:{which}:raises', f'{tag}: TruncatedGaussian({aa!r},{bb!r}).fit raised '
                                f'{type(ex).__name__}: {ex}', case=case)
        # only ONE of the two bounds supplied: the other comes from the data (max + EPSILON / min - EPSILON)
        for which, kw in (('minimum-only', {'minimum': a}), ('maximum-only', {'maximum': b})):
            one = U.TruncatedGaussian(**kw)
            r.tr()
            try:
                one.fit(x.copy())
                op = one.to_dict()
                olo, ohi = op['loc'] + op['a'] * op['scale'], op['loc'] + op['b'] * op['scale']
                want_lo = a if which == 'minimum-only' else x.min() - EPS32
                want_hi = b if which == 'maximum-only' else x.max() + EPS32
                r.ev()
                if not (abs(olo - want_lo) <= e + 1e-9 * abs(want_lo) and abs(ohi - want_hi) <= e + 1e-9 * abs(want_hi)):
                    r.violation(f'{sig}:user-bounds:{which}', f'{tag}: TruncatedGaussian({kw}) has support [{olo!r},{ohi!r}], '
                                f'expected [{want_lo!r},{want_hi!r}]', case=case)
            except Exception as ex:
                r.violation(f'{sig}:user-bounds:{which}:raises', f'{tag}: TruncatedGaussian({kw}).fit raised '
                            f'{type(ex).__name__}: {ex}', case=case)
        # the same bounds given positionally to a prototype that the selecting wrapper clones (get_instance)
        wrp = U.Univariate(candidates=[U.TruncatedGaussian(a, b)])
        r.tr()
        try:
            wrp.fit(x.copy())
            wp = wrp.to_dict()
            wlo, whi = wp['loc'] + wp['a'] * wp['scale'], wp['loc'] + wp['b'] * wp['scale']
            r.ev()
            if not (wp['type'].endswith('TruncatedGaussian') and abs(wlo - a) <= e and abs(whi - b) <= e):
                r.violation(f'{sig}:user-bounds:through-wrapper', f'{tag}: Univariate(candidates=[TruncatedGaussian({a!r}, {b!r})]) '
                            f'is fitted as {wp["type"]} with support [{wlo!r},{whi!r}]', case=case)
        except Exception as ex:
            r.violation(f'{sig}:user-bounds:through-wrapper:raises', f'{tag}: Univariate(candidates=[TruncatedGaussian({a!r}, '
                        f'{b!r})]).fit raised {type(ex).__name__}: {ex}', case=case)
        r.hit('user-bounds')
    r['sample'] = {'family': fam, 'member': list(mem), 'loc': loc, 'scale': scale, 'n': n,
                   'sup_dist_true': d_true, 'band': band}
    return r


def _kde(r, case):
    import copulas.univariate as U
    from scipy.stats import gaussian_kde
    from mc import uni
    _, bw, weighted, ss, dspec = case
    sig = 'C04:kde'
    x = uni.dataset(dspec)
    n = len(x)
    weights = None
    if weighted:
        weights = (1.0 + (np.arange(n) % 3)) / np.sum(1.0 + (np.arange(n) % 3))
    tag = f'GaussianKDE(bw_method={bw!r}, weighted={weighted}, sample_size={ss}) on {dspec}'
    model = U.GaussianKDE(bw_method=bw, weights=weights, sample_size=ss)
    np.random.seed(4242)
    r.tr()
    model.fit(x.copy())
    r.nontriv()
    stored = np.asarray(model.to_dict()['dataset'], float).ravel()
    s = np.std(x)
    pts = np.concatenate([np.linspace(x.min() - 3 * s, x.max() + 3 * s, 41), x[:10]])
    if ss:
        np.random.seed(4242)
        expect = gaussian_kde(x, bw_method=bw, weights=weights).resample(ss).ravel()
        if not (len(stored) == ss and np.array_equal(stored, expect)):
            r.violation(f'{sig}:resample', f'{tag}: stored dataset (len {len(stored)}) is not the size-{ss} resample of the '
                        f'training KDE under the seeded global stream', case=case)
            return r
        r.hit('kde-resample')
        base, w_ref = stored, None
    else:
        if not np.array_equal(stored, x):
            r.violation(f'{sig}:dataset', f'{tag}: stored dataset differs from the training data', case=case)
            return r
        base, w_ref = x, weights
    got = np.asarray(model.probability_density(pts.copy()), float)
    ref = refkde.pdf(pts, base, bw, w_ref)
    r.tr()
    r.ev(len(pts))
    # 1e-7: the bandwidth of data offset by 1e6 is itself only defined to ~1e-9 relative in float64
    bad = ~(np.abs(got - ref) <= 1e-7 * np.abs(ref) + 1e-300)
    if bad.any():
        i = int(np.nonzero(bad)[0][0])
        r.violation(f'{sig}:density', f'{tag}: pdf({pts[i]!r})={got[i]!r} but the kernel estimate is {ref[i]!r}', case=case)
    # the same estimate reached through the selecting wrapper (GaussianKDE as the only candidate): still the kernel estimate of
    # the training data, not of a resample
    if not ss and not weighted:
        wrp = U.Univariate(candidates=[U.GaussianKDE(bw_method=bw)])
        np.random.seed(4242)
        r.tr()
        wrp.fit(x.copy())
        wstored = np.asarray(wrp.to_dict().get('dataset', []), float).ravel()
        wgot = np.asarray(wrp.probability_density(pts.copy()), float)
        r.ev(len(pts))
        if not np.array_equal(wstored, x):
            r.violation(f'{sig}:dataset:through-wrapper', f'{tag}: Univariate(candidates=[GaussianKDE]) stores a dataset of '
                        f'length {len(wstored)} that is not the training data', case=case)
        elif not np.all(np.abs(wgot - ref) <= 1e-7 * np.abs(ref) + 1e-300):
            r.violation(f'{sig}:density:through-wrapper', f'{tag}: through Univariate(candidates=[GaussianKDE]) the pdf is not '
                        f'the kernel estimate', case=case)
    r.hit(f'kde-bw:{bw}')
    r.outcome('kde')
    r['sample'] = {'kde': True, 'bw_method': bw, 'weighted': weighted, 'sample_size': ss, 'dataset': list(dspec)}
    return r


def finish(agg, tier):
    ex = agg['extra']
    for fam in MLE:
        n, ok = ex.get(f'n:{fam}', 0), ex.get(f'ok:{fam}', 0)
        engine.require(n >= 40, f'{fam} under-explored')
        if ok < 0.8 * n:
            pairs = sorted(k.split(':', 2)[2] for k in ex if k.startswith(f'failpairs:{fam}:'))
            agg['viol'].append({'sig': f'C04:{fam}:recovery-rate:fails-only-at-loc:scale=' + ','.join(pairs), 'case': None,
                                'detail': {},
                                'msg': f'{fam}: only {ok}/{n} datasets of its own family are recovered within the DKW '
                                       f'band (required >= 80%)'})
    for k in ('exact-gaussian', 'exact-uniform', 'support-checked', 'user-bounds', 'kde-resample', 'refit-history'):
        engine.require(agg['hits'].get(k, 0) >= 10, f'{k} under-explored')
