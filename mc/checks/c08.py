"""C08 - percent_point inverts the conditional CDF of every bivariate copula.

E1 over family x theta x (y,v)-grid x vector layouts, plus an E2 history layer: one copula object that is
re-parameterised through the whole theta alphabet (forwards and backwards) must answer like a fresh one.
Oracle: derivative-free bracket oracle on the mpmath conditional CDF.
"""
import numpy as np

from mc import alphabets as A
from mc import engine
from mc.lib import make_biv

PROPERTY = 'C08'
LEVEL = 'exploration'
ENGINE = 'E1-product-explorer'
ENGINES = ('E1-product-explorer', 'E2-sequence-explorer')
TECHNIQUE = ('bounded-exhaustive enumeration of family x theta x (y,v)-grid x vector layouts with a bracket oracle on '
             'the mpmath conditional CDF; plus exhaustive re-parameterisation histories of one object over the '
             'theta alphabet compared with fresh objects')
LEVEL_TEXT = ('every (family, theta, y, v) of the alphabet is inverted by the real code, alone, in a full vector and in '
              'a permuted vector, and the returned u is required to bracket the true root of the reference h within '
              '1e-9; every adjacent pair of the theta alphabet is also visited on one re-used object. Values between '
              'grid points are not enumerated: exploration.')
LEVEL_NOTE = 'trusted: mpmath reference h (monotone in u); tolerance delta=1e-9 in u; DESIGN.md C08'
RULE = ('family x theta alphabet x (y,v) in grid^2, each solved alone / in the full vector / in a permuted vector / on '
        'an object previously used at the neighbouring thetas; Independence after fit; non-trivial = theta is not an '
        'independence shortcut; distinct = distinct (family,theta,y,v)')
ASSUMPTIONS = ['mpmath 40-digit arithmetic', 'reference h is monotone in u (copula property, checked by C07)']

DELTA = 1e-9


def bounds(tier):
    return {'grid': len(A.tier_grid(tier)), 'thetas': {k: len(v) for k, v in A.THETAS[tier].items()}}


def cases(tier, seed):
    out = []
    for fam, ths in A.THETAS[tier].items():
        for th in sorted(ths):
            out.append(('fresh', fam, th, tier))
        out.append(('history', fam, 0.0, tier))
    out.append(('independence', 'independence', 0.0, tier))
    for fam_ in ('clayton', 'frank', 'gumbel'):
        out.append(('fitted-tau0', fam_, 0.0, tier))
    return out


def _grid(tier):
    g = np.asarray(A.tier_grid(tier), float)
    Y, V = np.meshgrid(g, g, indexing='ij')
    return g, Y.ravel(), V.ravel()


def _solve_layouts(r, cop, y, v, sig, case, fam, th):
    """solo / full / permuted. Returns the solo results (nan where the call raised)."""
    n = len(y)
    solo = np.full(n, np.nan)
    for i in range(n):
        r.tr()
        try:
            out = np.asarray(cop.percent_point(np.array([y[i]]), np.array([v[i]])), float)
            if out.shape != (1,):
                r.violation(f'{sig}:shape', f'{fam} theta={th}: percent_point of 1 element returned shape {out.shape}',
                            case=case)
                return None
            solo[i] = out[0]
        except Exception as e:  # inside the stated domain every exception is a violation
            lowroot = _root_below_eps(fam, th, y[i], v[i])
            r.violation(f'{sig}:raises:{type(e).__name__}:{"root<EPSILON" if lowroot else "other"}',
                        f'{fam} theta={th}: percent_point(y={y[i]}, v={v[i]}) raised {type(e).__name__}: {e}',
                        case=case)
            return None
    r.ev(n)
    perm = np.argsort((np.arange(n) * 7919) % n, kind='stable')
    for lname, idx in (('full', np.arange(n)), ('permuted', perm)):
        r.tr()
        try:
            out = np.asarray(cop.percent_point(y[idx].copy(), v[idx].copy()), float)
        except Exception as e:
            r.violation(f'{sig}:vector-raises:{type(e).__name__}', f'{fam} theta={th}: vector percent_point raised '
                        f'{type(e).__name__}: {e} although every element succeeds alone', case=case)
            return solo
        r.ev(n)
        if out.shape != (n,):
            r.violation(f'{sig}:shape', f'{fam} theta={th}: vector of {n} returned shape {out.shape}', case=case)
            return solo
        bad = ~(np.abs(out - solo[idx]) <= 1e-12)
        if bad.any():
            i = int(np.nonzero(bad)[0][0])
            r.violation(f'{sig}:not-elementwise', f'{fam} theta={th}: element (y={y[idx][i]}, v={v[idx][i]}) gives '
                        f'{out[i]!r} in the {lname} vector but {solo[idx][i]!r} alone', case=case)
            break
    # the SAME y / v objects evaluated, refilled in place (permuted values) and evaluated again: inputs stay untouched and
    # the answer is a function of the values, not of the identity of the arrays
    ys, vs = y.copy(), v.copy()
    r.tr(2)
    try:
        o1 = np.array(cop.percent_point(ys, vs), float)      # a copy: Gumbel theta=1 legitimately returns y itself
        untouched = np.array_equal(ys, y) and np.array_equal(vs, v)
        ys[:], vs[:] = y[perm], v[perm]
        o2 = np.asarray(cop.percent_point(ys, vs), float)
        r.ev(2 * n)
        if not untouched:
            r.violation(f'{sig}:argument-modified', f'{fam} theta={th}: percent_point wrote into its y / v arguments', case=case)
        elif o1.shape != (n,) or o2.shape != (n,) or not (np.all(np.abs(o1 - solo) <= 1e-12) and
                                                        np.all(np.abs(o2 - solo[perm]) <= 1e-12)):
            r.violation(f'{sig}:not-elementwise:same-objects-refilled', f'{fam} theta={th}: the same y / v array objects evaluated, '
                        f'refilled in place with permuted values and evaluated again do not give the element-wise roots', case=case)
    except Exception as e:
        r.violation(f'{sig}:vector-raises:{type(e).__name__}:refilled', f'{fam} theta={th}: refilled input raised {e}', case=case)
    # a returned result is a value: a LATER call on the same copula must not rewrite it (no shared output buffer); and the
    # documented shortcut ppf(y, v) is percent_point(y, v)
    r.tr(3)
    try:
        first = cop.percent_point(y.copy(), v.copy())
        kept = np.array(first, float)
        cop.percent_point(y[perm][: max(1, n // 2)].copy(), v[perm][: max(1, n // 2)].copy())
        rewritten = not np.array_equal(np.asarray(first, float), kept, equal_nan=True)
        short = np.asarray(cop.ppf(y.copy(), v.copy()), float)
        r.ev(2 * n)
        if rewritten:
            r.violation(f'{sig}:result-rewritten-by-later-call', f'{fam} theta={th}: the array returned by percent_point changed '
                        f'when percent_point was called again on the same copula', case=case)
        if short.shape != (n,) or not np.all(np.abs(short - solo) <= 1e-12):
            r.violation(f'{sig}:shortcut:ppf', f'{fam} theta={th}: ppf(y, v) differs from percent_point(y, v)', case=case)
    except Exception as e:
        r.violation(f'{sig}:vector-raises:{type(e).__name__}:repeat', f'{fam} theta={th}: repeated call raised {e}', case=case)
    # the empty batch: zero rows give zero roots (narrow float inputs are NOT compared: the closed-form Clayton inverse of the
    # unchanged library already computes in the dtype of its input)
    r.tr()
    try:
        e_ = np.asarray(cop.percent_point(np.array([], dtype=float), np.array([], dtype=float)), float)
        if e_.shape != (0,):
            r.violation(f'{sig}:shape:empty', f'{fam} theta={th}: percent_point of zero rows returned shape {e_.shape}', case=case)
    except Exception as e:
        r.violation(f'{sig}:vector-raises:{type(e).__name__}:empty', f'{fam} theta={th}: percent_point of zero rows raised '
                    f'{type(e).__name__}: {e}', case=case)
    # the same vectors handed over as pandas Series whose index labels are a permutation of 0..n-1 (positional meaning)
    import pandas as pd
    lab = np.argsort((np.arange(n) * 104729) % n, kind='stable')
    r.tr()
    try:
        out = np.asarray(cop.percent_point(pd.Series(y.copy(), index=lab), pd.Series(v.copy(), index=lab)), float)
        r.ev(n)
        if out.shape != (n,) or not np.all(np.abs(out - solo) <= 1e-12):
            i = int(np.argmax(np.abs(out - solo))) if out.shape == (n,) else 0
            r.violation(f'{sig}:not-elementwise:Series', f'{fam} theta={th}: with y and v given as Series with a permuted integer '
                        f'index, element {i} (y={y[i]}, v={v[i]}) gives {out[i] if out.shape == (n,) else out!r} but {solo[i]!r} '
                        f'alone', case=case)
    except Exception as e:
        r.violation(f'{sig}:vector-raises:{type(e).__name__}:Series', f'{fam} theta={th}: Series input raised {e}', case=case)
    # vectors in which every v is the same and the y's come in a scrambled (3-cycle) order
    m = int(round(np.sqrt(n)))
    if m * m == n and m >= 3:
        Y, Vv = y.reshape(m, m), v.reshape(m, m)          # [i, j] = (y = g[i], v = g[j])
        scr = np.array([(3 * k + 1) % m if np.gcd(3, m) == 1 else (k + 2) % m for k in range(m)])
        for j in range(m):
            r.tr()
            try:
                out = np.asarray(cop.percent_point(Y[scr, j].copy(), Vv[scr, j].copy()), float)
            except Exception as e:
                r.violation(f'{sig}:vector-raises:{type(e).__name__}', f'{fam} theta={th}: constant-v vector raised {e}', case=case)
                break
            r.ev(m)
            ref_ = solo.reshape(m, m)[scr, j]
            if out.shape != (m,) or not np.all(np.abs(out - ref_) <= 1e-12):
                i = int(np.argmax(np.abs(out - ref_))) if out.shape == (m,) else 0
                r.violation(f'{sig}:not-elementwise', f'{fam} theta={th}: in a vector with constant v={Vv[0, j]} and scrambled y, '
                            f'element y={Y[scr, j][i]} gives {out[i] if out.shape == (m,) else out!r} but {ref_[i]!r} alone',
                            case=case)
                break
        r.hit('const-v-vectors')
    return solo


def _root_below_eps(fam, th, y, v):
    from mc.ref.archimedean import Ref
    if fam == 'independence':
        return False
    try:
        return float(Ref(fam, th).h(A.EPS32, v)) > y
    except Exception:
        return False


def _bracket(r, ref, u, y, v, sig, case, fam, th):
    n = len(u)
    for i in range(n):
        if not (0.0 <= u[i] <= 1.0):
            r.violation(f'{sig}:range', f'{fam} theta={th}: percent_point(y={y[i]}, v={v[i]})={u[i]!r} not in [0,1]',
                        case=case)
            return
        lo = float(ref.h(max(u[i] - DELTA, 0.0), v[i]))
        hi = float(ref.h(min(u[i] + DELTA, 1.0), v[i]))
        r.ev()
        if not (lo - 1e-12 <= y[i] <= hi + 1e-12):
            r.violation(f'{sig}:not-a-root', f'{fam} theta={th}: percent_point(y={y[i]}, v={v[i]})={u[i]!r} but '
                        f'h(u-1e-9,v)={lo!r}, h(u+1e-9,v)={hi!r} do not bracket y', case=case)
            return


def run_case(case):
    from mc.ref.archimedean import Ref
    kind, fam, th, tier = case
    r = engine.new_result()
    g, y, v = _grid(tier)
    m = len(g)
    sig = f'C08:{fam}'
    r.hit(f'family:{fam}')

    if kind == 'independence':
        from copulas.bivariate.independence import Independence
        cop = Independence()
        r.tr()
        cop.fit(np.column_stack([y, v]))
        try:
            u = np.asarray(cop.percent_point(y.copy(), v.copy()), float)
            r.tr()
            hv = np.asarray(cop.partial_derivative(np.column_stack([u, v])), float)
            r.ev(len(y))
            bad = ~(np.abs(hv - y) <= 1e-9)
            if bad.any():
                i = int(np.nonzero(bad)[0][0])
                r.violation(f'{sig}:not-a-root', f'Independence: percent_point(y={y[i]}, v={v[i]})={u[i]!r} but '
                            f'partial_derivative(u,v)={hv[i]!r} != y', case=case)
        except Exception as e:
            r.violation(f'{sig}:raises:{type(e).__name__}', f'Independence().fit(X).percent_point raised '
                        f'{type(e).__name__}: {e}', case=case)
        for a, b in zip(y, v):
            r.state((fam, 0, float(a), float(b)))
        r.outcome('independence')
        return r

    if kind == 'fitted-tau0':
        from copulas.bivariate.base import Bivariate
        X0 = np.array([[0.2, 0.4], [0.4, 0.8], [0.6, 0.2], [0.8, 0.6]])          # 3 concordant, 3 discordant pairs
        cop = Bivariate(copula_type=fam)
        try:
            cop.fit(X0.copy())
        except Exception as e:
            r.outcome(f'{fam}:fit-on-tau0-refused:{type(e).__name__}')
            r.hit('fitted-tau0')
            return r
        try:
            u = np.asarray(cop.percent_point(y.copy(), v.copy()), float)
            hv = np.asarray(cop.partial_derivative(np.column_stack([u, v])), float)
            r.tr(2)
            r.ev(len(y))
            bad = ~(np.abs(hv - y) <= 1e-6)
            if bad.any():
                i = int(np.nonzero(bad)[0][0])
                r.violation(f'{sig}:fitted-tau0:not-a-root', f'{fam} fitted on a table with Kendall tau = 0 (theta={cop.theta!r}, '
                            f'tau={cop.tau!r}): percent_point(y={y[i]}, v={v[i]})={u[i]!r} but partial_derivative(u,v)={hv[i]!r}',
                            case=case)
        except Exception as e:
            # (a Clayton with theta = 0 refuses every query with NotFittedError on the unchanged tree)
            r.outcome(f'{fam}:query-refused:{type(e).__name__}')
        r.nontriv()
        r.hit('fitted-tau0')
        return r

    if kind == 'history':
        # the history layer uses the 11-point grid in both tiers (the full theta alphabet is walked both ways)
        g, y, v = _grid('quick')
        ths = sorted(A.THETAS[tier][fam])
        order = ths + ths[::-1][1:]
        fresh = {}
        for t in ths:
            try:
                fresh[t] = np.asarray(make_biv(fam, t).percent_point(y.copy(), v.copy()), float)
            except Exception:        # (the per-case timeout is a BaseException and is not caught here)
                fresh[t] = None
        cop = make_biv(fam, order[0])
        for step, t in enumerate(order):
            cop.theta = t
            cop.tau = float(Ref(fam, t).tau())
            r.tr()
            try:
                out = np.asarray(cop.percent_point(y.copy(), v.copy()), float)
            except Exception:
                out = None
            r.ev(len(y))
            r.state((fam, 'hist', step, t))
            if (out is None) != (fresh[t] is None) or (out is not None and
                                                      not np.all(np.abs(out - fresh[t]) <= 1e-12)):
                r.violation(f'{sig}:history-dependence', f'{fam}: an object re-parameterised '
                            f'{" -> ".join(map(str, order[max(0, step - 2):step + 1]))} answers percent_point '
                            f'differently from a fresh theta={t} object', case=case,
                            prefix=order[:step + 1])
                break
        r.nontriv(len(order))
        r.outcome(f'{fam}:history')
        r.hit('history-cases')
        r['sample'] = {'family': fam, 'theta_sequence': order[:6], 'points': len(y)}
        return r

    cop = make_biv(fam, th)
    ref = Ref(fam, th)
    u = _solve_layouts(r, cop, y, v, sig, case, fam, th)
    if u is not None and np.all(np.isfinite(u)):
        shortcut = (fam == 'gumbel' and th == 1.0)
        if shortcut:
            r.hit('branch:gumbel-theta-1')
            if not np.array_equal(u, y):
                r.violation(f'{sig}:independence-shortcut', f'gumbel theta=1: percent_point(y,v) != y', case=case)
        _bracket(r, ref, u, y, v, sig, case, fam, th)
        U = u.reshape(m, m)                      # U[i, j] = ppf(y=g[i], v=g[j])
        dec = np.diff(U, axis=0) < -1e-12
        if dec.any():
            i, j = np.argwhere(dec)[0]
            r.violation(f'{sig}:not-monotone', f'{fam} theta={th}: percent_point decreases in y at v={g[j]}: '
                        f'y={g[i]}->{U[i, j]!r}, y={g[i + 1]}->{U[i + 1, j]!r}', case=case)
        if not shortcut:
            r.nontriv(len(y))
    elif u is not None:
        i = int(np.nonzero(~np.isfinite(u))[0][0])
        r.violation(f'{sig}:non-finite', f'{fam} theta={th}: percent_point(y={y[i]}, v={v[i]})={u[i]}', case=case)
    for a, b in zip(y, v):
        r.state((fam, th, float(a), float(b)))
    r.outcome(f'{fam}:fresh')
    if u is not None:
        r['sample'] = {'family': fam, 'theta': th, 'y': float(y[m + 3]), 'v': float(v[m + 3]),
                       'u': float(u[m + 3])}
    return r


def finish(agg, tier):
    for fam in ('clayton', 'gumbel', 'frank'):
        engine.require(agg['hits'].get(f'family:{fam}', 0) >= 6, f'family {fam} under-explored')
    engine.require(agg['hits'].get('history-cases', 0) == 3, 'history cases missing')
