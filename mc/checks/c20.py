"""C20 - library calls never modify caller-owned inputs; plots show exactly the data.

E2 (model checking, depth 2): every public entry point x every argument container is called TWICE with the SAME
argument objects; deep snapshots of every argument (and of constructor arguments) before == after each call, and
the second call must give the first call's result (or exception type). Figures: every row of every small frame
appears exactly once under the correct Real/Synthetic trace for the requested columns.
"""
import copy
import itertools
import re
import warnings

import numpy as np
import pandas as pd

from mc import engine, seq, tables, uni, zoo

PROPERTY = 'C20'
LEVEL = 'model_checking'
ENGINE = 'E2-sequence-explorer'
TECHNIQUE = ('exhaustive enumeration of public entry points x argument containers (ndarray, non-contiguous view, read-only '
             'array, Series, DataFrame, dict, list), each executed as the length-2 history "call; same call on the same '
             'objects" with deep before/after snapshots and result comparison; exhaustive small-frame alphabet for the '
             'scatter/compare figures with a multiset oracle on the plotted traces')
LEVEL_TEXT = ('every enumerated (entry point, container) pair is executed twice on the same argument objects on the real code; '
              'any in-place edit of an argument, of a constructor argument, or any change of the second result is a '
              'violation. Entry points and containers outside the list are not covered.')
LEVEL_NOTE = ('trusted: the deep snapshot (bytes, dtype, shape, writeable flag, index, columns, nested containers); plotly '
              'Figure.data as the rendering of a figure; dist_1d/compare_1d cannot run with the installed plotly (no '
              'create_distplot) and are only checked for argument purity')
RULE = ('entry points: 9 univariate configurations x {fit,pdf,cdf,ppf,logpdf,sample} x {ndarray, view, read-only, Series}; '
        '3 bivariate x {fit,pdf,cdf,h,ppf,generator} + select_copula; GaussianMultivariate x {fit,pdf,cdf,sample(conditions)} '
        'x {DataFrame, ndarray, Series, dict} x distribution forms incl. a failing one; VineCopula x {fit,likelihood,sample}; '
        'bisect/chandrupatla; get_instance; plots x frame alphabet; non-trivial = every call pair; distinct = distinct '
        '(entry point, container)')
ASSUMPTIONS = ['a repeated call with unchanged arguments and the same seed must reproduce the first result']


def snap(o, depth=0):
    """Deep, value-level snapshot including array flags and container order."""
    if isinstance(o, np.ndarray):
        return ('nd', str(o.dtype), o.shape, bool(o.flags.writeable), bool(o.flags.c_contiguous),
                np.array(o, copy=True).tobytes() if o.dtype != object else repr(o.tolist()))
    if isinstance(o, pd.DataFrame):
        return ('df', [repr(c) for c in o.columns], [repr(i) for i in o.index], [str(t) for t in o.dtypes],
                snap(o.to_numpy(), depth + 1))
    if isinstance(o, pd.Series):
        return ('ser', repr(o.name), [repr(i) for i in o.index], str(o.dtype), snap(o.to_numpy(), depth + 1))
    if isinstance(o, dict):
        return ('dict', [(repr(k), snap(v, depth + 1)) for k, v in o.items()])
    if isinstance(o, (list, tuple)):
        return (type(o).__name__, [snap(v, depth + 1) for v in o])
    if isinstance(o, (set, frozenset)):
        return (type(o).__name__, sorted(repr(snap(v, depth + 1)) for v in o))
    if isinstance(o, np.random.RandomState):
        return ('rs', seq.canon(o))
    if isinstance(o, (int, float, str, bool, type(None), np.floating, np.integer)):
        return ('v', repr(o))
    if isinstance(o, type):
        return ('type', o.__qualname__)
    return ('obj', seq.key(o)) if depth < 3 else ('obj', type(o).__name__)


def bounds(tier):
    return {'call_groups': len(GROUPS), 'history': 'call; same call on the same argument objects'}


GROUPS = ['uni', 'uni-ctor', 'biv', 'gm', 'vine', 'optimize', 'misc', 'plots']


def cases(tier, seed):
    out = []
    for m in (('gaussian',), ('beta',), ('gamma',), ('student_t',), ('uniform',), ('loglaplace',), ('truncated',),
              ('kde', None, None, False), ('kde', 0.5, 12, False), ('univariate', 'parametric')):
        out.append(('uni', m))
    for f in ('clayton', 'gumbel', 'frank', 'select'):
        out.append(('biv', f))
    for c in ('gaussian-class', 'dict', 'kde-instance', 'boom-dict', 'default'):
        out.append(('gm', c))
    for v in ('center', 'direct', 'regular'):
        out.append(('vine', v))
    out += [('optimize', 0), ('misc', 0), ('plots', 2), ('plots', 3), ('uni-ctor', 0)]
    out.sort(key=lambda c: c[0] not in ('vine', 'gm'))
    return out


class Runner:
    def __init__(self, r, case):
        self.r = r
        self.case = case

    def twice(self, label, fn, args, kwargs=None, owned=(), reseed=None, compare=True):
        """Run fn(*args, **kwargs) twice on the same objects. `owned` = extra caller-owned objects to snapshot."""
        kwargs = kwargs or {}
        sig = re.sub(r'\(.*\)', '', label)
        objs = list(args) + list(kwargs.values()) + list(owned)
        before = [snap(o) for o in objs]
        results = []
        for k in (1, 2):
            if reseed:
                reseed()
            np.random.seed(2024)
            with warnings.catch_warnings():
                warnings.simplefilter('ignore')
                res = zoo.attempt(fn, *args, **kwargs)
            self.r.tr()
            self.r.ev()
            results.append(res)
            after = [snap(o) for o in objs]
            if after != before:
                i = [a != b for a, b in zip(after, before)].index(True)
                what = type(objs[i]).__name__
                self.r.violation(f'C20:{sig}:argument-modified:{what}', f'{label}: call #{k} modified argument #{i} ({what})',
                                 case=self.case)
                return results
        self.r.state((label,))
        self.r.nontriv()
        if compare and not same_result(results[0], results[1]):
            self.r.violation(f'C20:{sig}:second-call-differs', f'{label}: the same call on the same argument objects gives '
                             f'{_sh(results[1])} the second time, {_sh(results[0])} the first time', case=self.case)
        return results


def same_result(a, b):
    if isinstance(a, zoo.Raised) or isinstance(b, zoo.Raised):
        return a == b
    if hasattr(a, 'data') and hasattr(a, 'layout'):          # plotly figure
        return trace_points(a) == trace_points(b)
    if hasattr(a, '__dict__') and not isinstance(a, (pd.DataFrame, pd.Series, np.ndarray)):
        return seq.key(a) == seq.key(b)
    return seq.values_equal(a, b)


def _sh(v):
    s = repr(v).replace('\n', ' ')
    return s if len(s) < 120 else s[:117] + '...'


def containers_1d(x):
    view = np.column_stack([x, x + 1.0])[:, 0]            # non-contiguous view
    ro = x.copy()
    ro.flags.writeable = False
    return {'ndarray': x.copy(), 'view': view, 'read-only': ro, 'Series': pd.Series(x.copy(), name='col')}


def run_case(case):
    r = engine.new_result()
    kind = case[0]
    R = Runner(r, case)
    if kind == 'uni':
        _uni(R, case[1])
    elif kind == 'uni-ctor':
        _uni_constructor_args(R)
    elif kind == 'biv':
        _biv(R, case[1])
    elif kind == 'gm':
        _gm(R, case[1])
    elif kind == 'vine':
        _vine(R, case[1])
    elif kind == 'optimize':
        _optimize(R)
    elif kind == 'misc':
        _misc(R)
    else:
        _plots(R, case[1])
    r.hit(f'group:{kind}')
    r['sample'] = {'group': kind, 'what': str(case[1]), 'history': ['call', 'same call, same argument objects']}
    return r


def _uni(R, mspec):
    x = uni.dataset(('gamma2', 3.0, 2.0, 40))
    name = ':'.join(map(str, mspec))
    for cname, X in containers_1d(x).items():
        m = uni.make_model(mspec, x)
        R.twice(f'uni:{name}.fit({cname})', m.fit, (X,), compare=False)
        if not getattr(m, 'fitted', False):
            continue
        pts = containers_1d(np.quantile(x, [0.05, 0.3, 0.5, 0.9]))[cname]
        probs = containers_1d(np.array([0.1, 0.5, 0.75, 0.99]))[cname]
        for meth, arg in (('probability_density', pts), ('cumulative_distribution', pts),
                          ('log_probability_density', pts), ('percent_point', probs)):
            if cname == 'Series' and meth == 'percent_point' and mspec[0] in ('kde', 'univariate'):
                pass
            R.twice(f'uni:{name}.{meth}({cname})', getattr(m, meth), (arg,))
        R.twice(f'uni:{name}.sample', m.sample, (5,), reseed=lambda: m.set_random_state(3))
        if cname == 'ndarray':
            import copulas.univariate as U
            d = m.to_dict()
            R.twice(f'uni:{name}.from_dict', type(m).from_dict, (d,), compare=False)
            R.twice(f'uni:{name}.Univariate.from_dict', U.Univariate.from_dict, (d,), compare=False)


def _uni_constructor_args(R):
    """Objects handed to a constructor stay the caller's: fit / sample / to_dict must leave them untouched."""
    import copulas.univariate as U
    x = uni.dataset(('gamma2', 3.0, 2.0, 40))
    w = np.linspace(1.0, 3.0, len(x))                       # float64, does not sum to 1
    m = U.GaussianKDE(weights=w, bw_method='silverman')
    R.twice('uni:kde(weights=float64 ndarray).fit', m.fit, (x.copy(),), owned=(w,), compare=False)
    R.twice('uni:kde(weights=float64 ndarray).probability_density', m.probability_density, (np.quantile(x, [0.1, 0.5, 0.9]),),
            owned=(w,))
    R.twice('uni:kde(weights=float64 ndarray).sample', m.sample, (4,), owned=(w,), reseed=lambda: m.set_random_state(3))
    R.twice('uni:kde(weights=float64 ndarray).to_dict', m.to_dict, (), owned=(w,))
    wl = [1.0, 2.0] * (len(x) // 2)
    m2 = U.GaussianKDE(weights=wl)
    R.twice('uni:kde(weights=list).fit', m2.fit, (x.copy(),), owned=(wl,), compare=False)
    # a selecting wrapper that looks at a subsample is fitted on the caller's array itself
    xs = x.copy()
    sel = U.Univariate(selection_sample_size=10, candidates=[U.GaussianUnivariate, U.GammaUnivariate])
    R.twice('uni:Univariate(selection_sample_size=10).fit(ndarray)', sel.fit, (xs,), compare=False)
    # truncation bounds handed over as (0-d / 1-element) arrays
    lo_a, hi_a = np.array(float(x.min()) - 1.0), np.array([float(x.max()) + 2.0])
    tg = U.TruncatedGaussian(minimum=lo_a, maximum=hi_a)
    R.twice('uni:truncated(bounds as ndarrays).fit', tg.fit, (x.copy(),), owned=(lo_a, hi_a), compare=False)
    R.twice('uni:truncated(bounds as ndarrays).cumulative_distribution', tg.cumulative_distribution,
            (np.quantile(x, [0.1, 0.5, 0.9]),), owned=(lo_a, hi_a))
    cands = [U.GammaUnivariate, U.GaussianKDE(bw_method=0.5), 'copulas.univariate.uniform.UniformUnivariate']
    # ... including the constructor call itself
    R.twice('uni:Univariate(candidates=list) constructor', lambda c: U.Univariate(candidates=c), (cands,), compare=False)
    names_only = ['copulas.univariate.gaussian.GaussianUnivariate', 'copulas.univariate.beta.BetaUnivariate']
    R.twice('uni:Univariate(candidates=names) constructor', lambda c: U.Univariate(candidates=c), (names_only,), compare=False)
    R.twice('uni:Univariate(candidates=names).fit', lambda c, X: U.Univariate(candidates=c).fit(X), (names_only, x.copy()),
            compare=False)
    w3 = np.linspace(1.0, 2.0, len(x))
    R.twice('uni:GaussianKDE(weights=ndarray) constructor', lambda w_: U.GaussianKDE(weights=w_), (w3,), compare=False)
    from copulas.multivariate import GaussianMultivariate
    dconf = {'a': U.GammaUnivariate, 'b': 'copulas.univariate.beta.BetaUnivariate', 'c': U.GaussianKDE(bw_method=0.3)}
    R.twice('gm:GaussianMultivariate(distribution=dict) constructor', lambda d_: GaussianMultivariate(distribution=d_), (dconf,),
            compare=False)
    m3 = U.Univariate(candidates=cands)
    R.twice('uni:Univariate(candidates=list).fit', m3.fit, (x.copy(),), owned=(cands,), compare=False)
    R.twice('uni:Univariate(candidates=list).sample', m3.sample, (4,), owned=(cands,), reseed=lambda: m3.set_random_state(3))


def _biv(R, fam):
    from copulas.bivariate import select_copula
    from copulas.bivariate.base import Bivariate
    from mc import alphabets as A
    X = A.designed_tau_array(40, 0.45)
    wide = np.column_stack([X[:, 0], np.zeros(len(X)), X[:, 1]])
    conts = {'ndarray': X.copy(), 'view': wide[:, ::2], 'read-only': X.copy()}
    conts['read-only'].flags.writeable = False
    if fam == 'select':
        for cname, Xc in conts.items():
            R.twice(f'biv:select_copula({cname})', select_copula, (Xc,))
        return
    base_res = {}
    # a valid table whose margins are clearly NOT uniform (the fit only warns about that)
    Xn = np.column_stack([X[:, 0] ** 3, X[:, 1] ** 2])
    cn = Bivariate(copula_type=fam)
    R.twice(f'biv:{fam}.fit(non-uniform margins)', cn.fit, (Xn,), compare=False)
    R.twice('biv:select_copula(non-uniform margins)', select_copula, (Xn.copy(),))
    for cname, Xc in conts.items():
        c = Bivariate(copula_type=fam)
        R.twice(f'biv:{fam}.fit({cname})', c.fit, (Xc,), compare=False)
        P = np.array([[0.2, 0.3], [0.5, 0.5], [0.9, 0.1], [0.0, 0.4], [1.0, 1.0]])
        Pc = {'ndarray': P.copy(), 'view': np.column_stack([P[:, 0], P[:, 0], P[:, 1]])[:, ::2], 'read-only': P.copy()}
        Pc['read-only'].flags.writeable = False
        for meth in ('probability_density', 'cumulative_distribution', 'partial_derivative', 'log_probability_density'):
            res_ = R.twice(f'biv:{fam}.{meth}({cname})', getattr(c, meth), (Pc[cname],))
            if cname == 'ndarray':
                base_res[meth] = res_
            elif res_ and base_res.get(meth) and not same_result(res_[0], base_res[meth][0]):
                R.r.violation(f'C20:biv:{fam}.{meth}:{cname}-argument-differs', f'biv:{fam}.{meth} gives {_sh(res_[0])} for a '
                              f'{cname} array and {_sh(base_res[meth][0])} for the same values in a plain writeable array',
                              case=R.case)
        y = containers_1d(np.array([0.1, 0.5, 0.9]))[cname]
        v = containers_1d(np.array([0.3, 0.6, 0.8]))[cname]
        R.twice(f'biv:{fam}.percent_point({cname})', c.percent_point, (y, v))
        # probabilities next to the ends of [0, 1] (inside the solver's bracket guard band): the caller's arrays stay as they are
        y2 = containers_1d(np.array([1e-9, 0.5, 1 - 1e-9, 3e-8]))[cname]
        v2 = containers_1d(np.array([0.3, 1 - 1e-9, 0.8, 1e-9]))[cname]
        R.twice(f'biv:{fam}.percent_point(near-end probabilities, {cname})', c.percent_point, (y2, v2), compare=False)
        R.twice(f'biv:{fam}.generator({cname})', c.generator, (containers_1d(np.array([0.2, 0.7, 1.0]))[cname],))
        R.twice(f'biv:{fam}.sample', c.sample, (4,), reseed=lambda: c.set_random_state(3))
        if cname == 'ndarray':
            d = c.to_dict()
            R.twice(f'biv:{fam}.from_dict', Bivariate.from_dict, (d,), compare=False)


def _gm(R, cfg):
    import copulas.univariate as U
    from copulas.multivariate import GaussianMultivariate
    from mc.boom import Boom
    df, _ = tables.gaussian_copula_table((3, 'mixed', 'rotated', (), 40, 'str'))
    cols = list(df.columns)
    if cfg == 'boom-dict':
        dist = {cols[0]: U.GammaUnivariate, cols[1]: Boom, cols[2]: U.GaussianKDE(bw_method=0.5)}
    else:
        dist = tables.make_config(cfg, cols)
    owned = (dist,) if dist is not None else ()
    ro = df.to_numpy().copy()
    ro.flags.writeable = False
    for cname, X in (('DataFrame', df.copy()), ('ndarray', df.to_numpy().copy()), ('read-only-ndarray', ro)):
        gm = GaussianMultivariate() if dist is None else GaussianMultivariate(distribution=dist)
        R.twice(f'gm:{cfg}.fit({cname})', gm.fit, (X,), owned=owned, compare=False)
        if not gm.fitted:
            continue
        if cname != 'DataFrame':
            continue
        q = df.iloc[:4]
        for qname, Q in (('DataFrame', q.copy()), ('ndarray', q.to_numpy().copy()), ('Series', q.iloc[0].copy()),
                         ('permuted-DataFrame', q[cols[::-1]].copy())):
            R.twice(f'gm:{cfg}.probability_density({qname})', gm.probability_density, (Q,), owned=owned)
            R.twice(f'gm:{cfg}.log_probability_density({qname})', gm.log_probability_density, (Q,), owned=owned)
        R.twice(f'gm:{cfg}.cumulative_distribution(DataFrame)', gm.cumulative_distribution, (q.iloc[:2].copy(),),
                compare=False)
        for kname, cond in (('dict+unknown-key', {cols[1]: float(df[cols[1]].iloc[3]), 'not_a_column': 1.0}),
                            ('Series+unknown-key', pd.Series({cols[0]: float(df[cols[0]].iloc[2]), 'not_a_column': 2.0})),
                            ('dict', {cols[1]: float(df[cols[1]].iloc[3])}),
                            ('dict2', {cols[2]: float(df[cols[2]].iloc[3]), cols[0]: float(df[cols[0]].iloc[1])}),
                            ('Series', pd.Series({cols[0]: float(df[cols[0]].iloc[2])}))):
            R.twice(f'gm:{cfg}.sample(conditions={kname})', gm.sample, (3,), {'conditions': cond}, owned=owned,
                    reseed=lambda: gm.set_random_state(5))
        R.twice(f'gm:{cfg}.sample', gm.sample, (3,), reseed=lambda: gm.set_random_state(5), owned=owned)
        d = gm.to_dict()
        R.twice(f'gm:{cfg}.from_dict', GaussianMultivariate.from_dict, (d,))
    # an integer-typed / mixed-dtype training frame must come back untouched (dtypes are part of the snapshot)
    idf = pd.DataFrame({'i64': (np.arange(40) * 7) % 11, 'i16': ((np.arange(40) * 3) % 5).astype(np.int16),
                        'f': np.linspace(0.0, 1.0, 40) ** 2})
    gmi = GaussianMultivariate() if dist is None else GaussianMultivariate(distribution=tables.make_config(
        cfg if cfg != 'boom-dict' else 'gaussian-class', list(idf.columns)))
    R.twice(f'gm:{cfg}.fit(int-typed DataFrame)', gmi.fit, (idf,), compare=False)
    # a second model built from the same (caller-owned) distribution object must behave like the first
    if dist is not None:
        a = GaussianMultivariate(distribution=dist)
        a.fit(df.copy())
        b = GaussianMultivariate(distribution=dist)
        b.fit(df.copy())
        ta = [u.to_dict()['type'] for u in a.univariates]
        tb = [u.to_dict()['type'] for u in b.univariates]
        R.r.tr(2)
        if ta != tb:
            R.r.violation(f'C20:gm:{cfg}:distribution-argument-reuse', f'GaussianMultivariate(distribution={cfg}): a second model '
                          f'built from the same distribution object selects {tb}, the first {ta}', case=R.case)


def _vine(R, vtype):
    from copulas.multivariate import VineCopula
    df, _ = tables.gaussian_copula_table((4, 'ar1', 'rotated', (), 40, 'str'))
    with warnings.catch_warnings():
        warnings.simplefilter('ignore')
        v = VineCopula(vtype)
        R.twice(f'vine:{vtype}.fit(DataFrame)', v.fit, (df.copy(),), compare=False)
        v2 = VineCopula(vtype)
        R.twice(f'vine:{vtype}.fit(DataFrame,truncated=2)', v2.fit, (df.copy(),), {'truncated': 2}, compare=False)
    if not v.fitted:
        return
    U = np.array([[0.2, 0.4, 0.6, 0.8]])
    ro = U.copy()
    ro.flags.writeable = False
    rw_ = R.twice(f'vine:{vtype}.get_likelihood(ndarray)', v.get_likelihood, (U.copy(),))
    ro_ = R.twice(f'vine:{vtype}.get_likelihood(read-only)', v.get_likelihood, (ro,))
    if rw_ and ro_ and not same_result(rw_[0], ro_[0]):
        R.r.violation(f'C20:vine:{vtype}.get_likelihood:read-only-argument-differs', f'vine:{vtype}.get_likelihood gives '
                      f'{_sh(ro_[0])} for a read-only array and {_sh(rw_[0])} for the same values in a writeable array', case=R.case)
    R.twice(f'vine:{vtype}.sample', v.sample, (2,), reseed=lambda: v.set_random_state(5))
    d = v.to_dict()
    R.twice(f'vine:{vtype}.from_dict', VineCopula.from_dict, (d,), compare=False)
    # a model re-created from a dict does not keep writing into that dict
    with warnings.catch_warnings():
        warnings.simplefilter('ignore')
        v3 = VineCopula(vtype)
        v3.fit(df.copy())
        d = v3.to_dict()                      # taken from a vine that has not sampled yet
        loaded = VineCopula.from_dict(d)
        R.twice(f'vine:{vtype}.from_dict(d).sample', loaded.sample, (3,), owned=(d,), reseed=lambda: loaded.set_random_state(5))
        R.twice(f'vine:{vtype}.from_dict(d).get_likelihood', loaded.get_likelihood, (U.copy(),), owned=(d,))
        R.twice(f'vine:{vtype}.from_dict(d).to_dict', loaded.to_dict, (), owned=(d,))


def _optimize(R):
    from copulas.optimize import bisect, chandrupatla
    root = np.array([0.1, 0.5, 0.731, 2.2])

    def f(x):
        return np.tanh(x - root)
    for name, fn in (('bisect', bisect), ('chandrupatla', chandrupatla)):
        lo, hi = np.array([0.0, -5.0, 0.0, 2.0]), np.array([1.0, 5.0, 1.0, 2.5])
        R.twice(f'optimize:{name}(ndarray brackets)', fn, (f, lo, hi))
        lo2, hi2 = np.zeros(4), np.full(4, 3.0)
        R.twice(f'optimize:{name}(shared-value brackets)', fn, (f, lo2, hi2))
    from copulas.univariate import GaussianKDE
    k = GaussianKDE()
    k.fit(uni.dataset(('normal', 0.0, 1.0, 30)))
    for meth in ('chandrupatla', 'bisect'):
        q = np.array([0.1, 0.5, 0.9])
        R.twice(f'optimize:GaussianKDE.percent_point(method={meth})', k.percent_point, (q,), {'method': meth})


def _misc(R):
    import copulas.univariate as U
    from copulas.utils import get_instance
    w = np.linspace(1, 2, 10)
    proto = U.GaussianKDE(bw_method=0.5, weights=w)
    R.twice('misc:get_instance(instance)', get_instance, (proto,), owned=(w,), compare=False)
    cands = [U.GaussianUnivariate, U.UniformUnivariate]
    x = uni.dataset(('uniform', 0.0, 1.0, 30))
    R.twice('misc:Univariate(candidates=list).fit', lambda c, X: U.Univariate(candidates=c).fit(X), (cands, x), compare=False)
    kw = {'bw_method': 'silverman'}
    R.twice('misc:get_instance(name, **kwargs)', lambda k: get_instance('copulas.univariate.gaussian_kde.GaussianKDE', **k),
            (kw,), compare=False)
    import copulas.datasets as D
    for fn in ('sample_bivariate_age_income', 'sample_trivariate_xyz', 'sample_univariates'):
        R.twice(f'misc:datasets.{fn}', getattr(D, fn), (20, 7))
    # the generic multivariate entry point reads the dict it is given (twice: the second call sees the same dict)
    from copulas.multivariate import GaussianMultivariate as _GM, Multivariate as _MV, VineCopula as _VC
    dfm, _ = tables.gaussian_copula_table((3, 'mixed', 'rotated', (), 30, 'str'))
    import warnings as _w
    with _w.catch_warnings():
        _w.simplefilter('ignore')
        gmd = _GM(distribution=U.GaussianUnivariate)
        gmd.fit(dfm.copy())
        vcd = _VC('regular')
        vcd.fit(dfm.copy())
    for label, dct in (('GaussianMultivariate dict', gmd.to_dict()), ('VineCopula dict', vcd.to_dict())):
        R.twice(f'misc:Multivariate.from_dict({label})', _MV.from_dict, (dct,), compare=False)
    R.twice('misc:Univariate.from_dict(dict)', U.Univariate.from_dict, (gmd.univariates[0].to_dict(),), compare=False)
    # a RandomState object handed over as seed is the caller's: it is read, never advanced (same answer the second time)
    for fn in ('sample_bivariate_age_income', 'sample_trivariate_xyz', 'sample_univariate_bimodal', 'sample_univariates'):
        rs = np.random.RandomState(11)
        R.twice(f'misc:datasets.{fn}(seed=RandomState)', getattr(D, fn), (20, rs))
    from copulas.multivariate import GaussianMultivariate
    df, _ = tables.gaussian_copula_table((2, 'equi+', 'normal', (), 30, 'str'))
    for label, make in (('uni:gaussian', lambda rs_: U.GaussianUnivariate(random_state=rs_)),
                        ('gm:gaussian-class', lambda rs_: GaussianMultivariate(distribution=U.GaussianUnivariate,
                                                                                random_state=rs_))):
        rs = np.random.RandomState(12)
        m = make(rs)
        m.fit(df['b'].to_numpy() if label.startswith('uni') else df.copy())
        R.twice(f'misc:{label}(random_state=RandomState).sample', m.sample, (4,), owned=(rs,), compare=False)
        rs2 = np.random.RandomState(13)
        R.twice(f'misc:{label}.set_random_state(RandomState)', m.set_random_state, (rs2,), compare=False)
        R.twice(f'misc:{label}.sample after set_random_state(RandomState)', m.sample, (4,), owned=(rs2,), compare=False)


# ------------------------------------------------------------------------------------------------
def trace_points(fig):
    out = {}
    for t in fig.data:
        xs = [np.asarray(getattr(t, ax), float) for ax in ('x', 'y', 'z') if getattr(t, ax, None) is not None]
        pts = sorted(zip(*[a.tolist() for a in xs])) if xs else []
        out.setdefault(t.name, []).extend(pts)
    return {k: sorted(v) for k, v in out.items()}


def frames(dim):
    """Small-frame alphabet: 1-4 rows, duplicate rows, more columns than plotted."""
    base = {'p': [1.0, 2.0, 2.0, 4.0], 'q': [10.0, 20.0, 20.0, 5.0], 'r': [0.5, 0.25, 0.25, 8.0], 's': [7.0, 7.0, 7.0, 1.0]}
    out = []
    for n in (1, 2, 3, 4):
        for ncol in (dim, dim + 1):
            cols = list(base)[:ncol]
            out.append(pd.DataFrame({c: base[c][:n] for c in cols}))
    return out


def _plots(R, dim):
    from copulas import visualization as V
    scatter = V.scatter_2d if dim == 2 else V.scatter_3d
    compare = V.compare_2d if dim == 2 else V.compare_3d
    r = R.r
    for df in frames(dim):
        allcols = list(df.columns)
        options = [None] if len(allcols) == dim else []
        options += [list(p) for p in itertools.permutations(allcols, dim)][:6]
        for cols in options:
            use = list(allcols) if cols is None else list(cols)
            want = sorted(map(tuple, df[use].to_numpy().tolist()))
            label = f'plots:scatter_{dim}d(rows={len(df)},frame_cols={len(allcols)},columns={"None" if cols is None else "given"})'
            res = R.twice(label, scatter, (df,), {'columns': cols} if cols is not None else {})
            if res and not isinstance(res[0], zoo.Raised):
                tp = trace_points(res[0])
                if tp != {'Real': want}:
                    r.violation(f'C20:plots:scatter_{dim}d:wrong-points', f'{label}: traces {tp} but the data rows for {use} are '
                                f'{want}', case=R.case)
            elif res and isinstance(res[0], zoo.Raised):
                r.violation(f'C20:plots:scatter_{dim}d:raises', f'{label}: raised {res[0].name}: {res[0].msg}', case=R.case)
            # compare: synthetic frame with a different number of rows
            for shift, nsyn in ((100.0, 1), (100.0, len(df)), (100.0, len(df) + 2)):
                syn = pd.DataFrame({c: [shift + 3 * i + k for i in range(nsyn)] for k, c in enumerate(allcols)})
                wsyn = sorted(map(tuple, syn[use].to_numpy().tolist()))
                label = (f'plots:compare_{dim}d(real_rows={len(df)},synth_rows={nsyn},frame_cols={len(allcols)},'
                         f'columns={"None" if cols is None else "given"})')
                res = R.twice(label, compare, (df, syn), {'columns': cols} if cols is not None else {})
                if res and not isinstance(res[0], zoo.Raised):
                    tp = trace_points(res[0])
                    if tp != {'Real': want, 'Synthetic': wsyn}:
                        r.violation(f'C20:plots:compare_{dim}d:wrong-points', f'{label}: traces {tp}; expected Real={want}, '
                                    f'Synthetic={wsyn}', case=R.case)
                elif res and isinstance(res[0], zoo.Raised):
                    r.violation(f'C20:plots:compare_{dim}d:raises', f'{label}: raised {res[0].name}: {res[0].msg}', case=R.case)
    # a frame with an extra, NOT plotted column that holds missing values: every row still has its plotted coordinates;
    # and a synthetic frame that has only the plotted columns
    base = {'p': [1.0, 2.0, 2.0, 4.0], 'q': [10.0, 20.0, 20.0, 5.0], 'r': [0.5, 0.25, 0.25, 8.0], 's': [7.0, 7.0, 7.0, 1.0]}
    use = list(base)[:dim]
    dfn = pd.DataFrame({c: base[c] for c in use})
    dfn['note'] = [np.nan, 1.0, np.nan, 2.0]
    want = sorted(map(tuple, dfn[use].to_numpy().tolist()))
    label = f'plots:scatter_{dim}d(rows=4,extra column with NaN,columns=given)'
    res = R.twice(label, scatter, (dfn,), {'columns': list(use)})
    if res and not isinstance(res[0], zoo.Raised):
        tp = trace_points(res[0])
        if tp != {'Real': want}:
            r.violation(f'C20:plots:scatter_{dim}d:wrong-points', f'{label}: traces {tp} but the data rows for {use} are {want}',
                        case=R.case)
    elif res:
        r.violation(f'C20:plots:scatter_{dim}d:raises', f'{label}: raised {res[0].name}: {res[0].msg}', case=R.case)
    # error paths: a call that is refused (wrong number of columns) leaves the caller's frame as it was
    wrong = pd.DataFrame({c: base[c] for c in list(base)[:(dim + 1 if dim == 2 else dim - 1)]})
    R.twice(f'plots:scatter_{dim}d(frame with {wrong.shape[1]} columns, refused)', scatter, (wrong,), compare=False)
    R.twice(f'plots:compare_{dim}d(frames with {wrong.shape[1]} columns, refused)', compare, (wrong, wrong.copy()), compare=False)
    # frames whose row index is not 0..n-1 (a filtered table, a string index): every row is still a point of the figure
    for iname, index in (('filtered integer index', [3, 7, 9, 12]), ('string index', ['r1', 'r2', 'r3', 'r4'])):
        dfi = pd.DataFrame({c: base[c] for c in use}, index=index)
        wanti = sorted(map(tuple, dfi[use].to_numpy().tolist()))
        syni = pd.DataFrame({c: [100.0 + 3 * i + k for i in range(3)] for k, c in enumerate(use)}, index=index[1:])
        wsyni = sorted(map(tuple, syni[use].to_numpy().tolist()))
        for label, fn, args, expect in ((f'plots:scatter_{dim}d(rows=4,{iname})', scatter, (dfi,), {'Real': wanti}),
                                        (f'plots:compare_{dim}d(real and synthetic with a {iname})', compare, (dfi, syni),
                                         {'Real': wanti, 'Synthetic': wsyni})):
            res = R.twice(label, fn, args)
            if res and not isinstance(res[0], zoo.Raised):
                tp = trace_points(res[0])
                if tp != expect:
                    r.violation(f'C20:plots:{fn.__name__}:wrong-points', f'{label}: traces {tp}; expected {expect}', case=R.case)
            elif res:
                r.violation(f'C20:plots:{fn.__name__}:raises', f'{label}: raised {res[0].name}: {res[0].msg}', case=R.case)
    syn = pd.DataFrame({c: [100.0 + 3 * i + k for i in range(3)] for k, c in enumerate(use)})
    wsyn = sorted(map(tuple, syn[use].to_numpy().tolist()))
    label = f'plots:compare_{dim}d(real has an extra column with NaN that synthetic lacks,columns=given)'
    res = R.twice(label, compare, (dfn, syn), {'columns': list(use)})
    if res and not isinstance(res[0], zoo.Raised):
        tp = trace_points(res[0])
        if tp != {'Real': want, 'Synthetic': wsyn}:
            r.violation(f'C20:plots:compare_{dim}d:wrong-points', f'{label}: traces {tp}; expected Real={want}, Synthetic={wsyn}',
                        case=R.case)
    elif res:
        r.violation(f'C20:plots:compare_{dim}d:raises', f'{label}: raised {res[0].name}: {res[0].msg}', case=R.case)
    # mixed dtypes: the real table has integer and boolean columns, the synthetic one (what a fitted model samples) has
    # non-integer floats in the same columns; every synthetic row is still drawn where it is
    reali = pd.DataFrame({'p': np.array([1, 2, 2, 4], dtype=np.int64), 'q': [10.0, 20.0, 20.0, 5.0],
                          'r': np.array([True, False, False, True])}).iloc[:, :dim]
    synf = pd.DataFrame({'p': [1.37, 2.81, 3.49], 'q': [11.5, 6.25, 19.75], 'r': [0.31, 0.77, 0.52]}).iloc[:, :dim]
    wanti = sorted(tuple(float(v) for v in row) for row in reali.to_numpy().tolist())
    wsynf = sorted(map(tuple, synf.to_numpy().tolist()))
    label = f'plots:compare_{dim}d(real with int64/bool columns, synthetic with non-integer floats)'
    res = R.twice(label, compare, (reali, synf))
    if res and not isinstance(res[0], zoo.Raised):
        tp = trace_points(res[0])
        if tp != {'Real': wanti, 'Synthetic': wsynf}:
            r.violation(f'C20:plots:compare_{dim}d:wrong-points', f'{label}: traces {tp}; expected Real={wanti}, Synthetic={wsynf}',
                        case=R.case)
    elif res:
        r.violation(f'C20:plots:compare_{dim}d:raises', f'{label}: raised {res[0].name}: {res[0].msg}', case=R.case)
    if dim == 2:
        s = pd.Series([1.0, 2.0, 3.5, 2.2], name='v')
        R.twice('plots:dist_1d(Series)', V.dist_1d, (s,))
        R.twice('plots:compare_1d(Series,Series)', V.compare_1d, (s, s * 2))
    r.hit(f'plots:{dim}d')


def finish(agg, tier):
    for g in GROUPS:
        engine.require(agg['hits'].get(f'group:{g}', 0) >= 1, f'group {g} missing')
    engine.require(agg['trans'] >= 1500, 'too few calls')
