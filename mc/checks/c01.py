"""C01 - Gaussian-copula synthetic data keeps schema, marginals and dependence.

E3 + E1: the single multivariate-normal draw of GaussianMultivariate.sample is owned by the harness.
 record : exact identity  out[:, j] == ppf_j(Phi(Z[:, j]))  with the recorded answer Z ~ N(0, correlation)
 script : the draw is answered with a lattice N(0, correlation) point set -> marginal KS and Kendall-tau bounds
 recover: tables generated from a known Gaussian copula -> fitted correlation / marginals within bands
"""
import numpy as np
from scipy import stats

from mc import alphabets as A
from mc import engine, seams, tables

PROPERTY = 'C01'
LEVEL = 'model_checking'
ENGINE = 'E3-environment-explorer'
ENGINES = ('E3-environment-explorer', 'E1-product-explorer')
TECHNIQUE = ('environment-answer enumeration: the multivariate-normal draw of sample() is recorded (real generator) or '
             'scripted (complete lattice N(0, correlation) point set) for every (table, marginal configuration, num_rows, '
             'seed form) of the alphabet; oracle = exact inverse-marginal identity, KS / tau-b discretisation bounds, '
             'recovery bands against the generating copula')
LEVEL_TEXT = ('for each enumerated (table, configuration, num_rows, seed form) the environment answer is owned, so the '
              'execution is deterministic and the output is compared exactly with the reference transform of the answer; '
              'the distributional clauses are decided on the scripted lattice answer. Tables outside the zoo and "all '
              'seeds" are covered by the identity, not by enumeration.')
LEVEL_NOTE = ('trusted: numpy RandomState.multivariate_normal, scipy.stats.norm, tau-b reference; marginal laws of the '
              'univariates are C03/C04')
RULE = ('table zoo (d=2..4(6) x 6 correlation designs x marginal mixes x constant columns) x 8 marginal configurations x '
        'num_rows in {1,2,7,1000} x seed form in {None,int,RandomState}; + scripted 2039-point lattice answer; + recovery; '
        'non-trivial = every (table,config); distinct = distinct (table,config)')
ASSUMPTIONS = ['rank-1 lattice push-forward through Cholesky/eigh stands for a sample of N(0, correlation)']

NSCRIPT = 2039


def bounds(tier):
    return {'tables': len(tables.table_zoo(tier)), 'configs': len(tables.CONFIGS), 'num_rows': [1, 2, 7, 1000],
            'script_points': NSCRIPT}


def prefork():
    from mc import tables
    for d in (2, 3, 4, 5, 6):
        A.korobov_generator(NSCRIPT, d)
        for n in (31, 301, 1001):
            A.korobov_generator(n, d)


def cases(tier, seed):
    out = []
    for cfg in tables.CONFIGS:
        for t in tables.table_zoo(tier):
            if cfg == 'default' and t[4] > 300:
                continue
            out.append((t, cfg, seed))
    # E2 layer: ONE model object fitted on another table with the same column names (other dependence, other marginals),
    # sampled, then fitted on this table: the sample must follow the LAST fit
    for cfg in ('default', 'gaussian-class', 'dict'):
        for t in tables.table_zoo(tier):
            if t[4] <= 300 and t[0] <= 4:
                out.append((t, cfg, seed, 'refit'))
    # integer-typed constant columns whose value no float64 holds exactly (nanosecond time stamps, large ids)
    for cfg in ('default', 'gaussian-class', 'kde-instance'):
        out.append((('special', 'bigint-constants'), cfg, seed))
    out.sort(key=lambda c: c[1] not in ('default', 'kde-instance', 'dict'))
    return out


def _bigint_constants(r, case):
    import pandas as pd
    _, cfg, seed = case[:3]
    n = 25
    x = stats.norm(3.0, 2.0).ppf(A.midpoints(n))
    big, neg = 1700000000123456789, -(2 ** 53 + 1)
    df = pd.DataFrame({'x': x, 'stamp': np.full(n, big, dtype=np.int64), 'y': x[::-1] ** 2,
                       'id': np.full(n, neg, dtype=np.int64), 'seven': np.full(n, 7, dtype=np.int32)})
    tag = f'table with int64 constant columns {big} and {neg}, config {cfg}'
    r.state(('bigint', cfg))
    r.nontriv()
    r.tr()
    try:
        gm = tables.fit_gm(df, cfg)
    except Exception as e:
        r.violation(f'C01:fit-raises:{type(e).__name__}', f'{tag}: fit raised {type(e).__name__}: {e}', case=case)
        return r
    for rows, sd in ((1, None), (6, 3)):
        gm.set_random_state(sd)
        np.random.seed(5)
        r.tr()
        r.ev()
        try:
            out = gm.sample(rows)
        except Exception as e:
            r.violation(f'C01:sample-raises:{type(e).__name__}', f'{tag}: sample({rows}) raised {type(e).__name__}: {e}', case=case)
            return r
        if list(out.columns) != list(df.columns) or len(out) != rows:
            r.violation('C01:schema', f'{tag}: sample({rows}) has columns {list(out.columns)} and {len(out)} rows', case=case)
            return r
        for c, val in (('stamp', big), ('id', neg), ('seven', 7)):
            got = [int(v) if float(v) == int(v) else v for v in out[c].tolist()]
            if got != [val] * rows:
                r.violation('C01:constant-column', f'{tag}: constant training column {c!r} (= {val}) is sampled as '
                            f'{out[c].tolist()[:3]} (dtype {out[c].dtype})', case=case)
    r.hit('bigint-constants')
    r['sample'] = {'kind': 'integer constants beyond 2**53', 'config': cfg}
    return r


def sqrt_psd(C):
    w, V = np.linalg.eigh((C + C.T) / 2)
    return V * np.sqrt(np.clip(w, 0, None))


def lattice_normal(C, n=NSCRIPT):
    d = C.shape[0]
    P = A.lattice(n, d)
    return stats.norm.ppf(P) @ sqrt_psd(C).T


def run_case(case):
    from mc.ref.kendall import tau_b
    t, cfg, seed = case[:3]
    hist = case[3] if len(case) > 3 else 'fresh'
    r = engine.new_result()
    if t[0] == 'special':
        return _bigint_constants(r, case)
    r.state((t, cfg, hist))
    r.nontriv()
    df, info = tables.gaussian_copula_table(t, A.shift_from_seed(seed))
    cols = list(df.columns)
    d = len(cols)
    n = len(df)
    tag = f'table {t}, config {cfg}' + (' (object previously fitted on another table and sampled)' if hist == 'refit' else '')
    sig = 'C01'
    r.tr()
    try:
        if hist == 'refit':
            other = (t[0], 'equi+' if t[1] != 'equi+' else 'ar1', 'normal' if t[2] != 'normal' else 'rotated', (), 30, t[5])
            df0, _ = tables.gaussian_copula_table(other)
            df0.columns = cols
            gm = tables.fit_gm(df0, cfg)
            gm.sample(3)
            gm.sample(2, conditions={cols[0]: float(df0.iloc[0, 0])})
            gm.fit(df.copy())
            r.hit('refit-history')
            r.tr(3)
        else:
            gm = tables.fit_gm(df, cfg)
    except Exception as e:
        r.violation(f'{sig}:fit-raises:{type(e).__name__}', f'{tag}: fit raised {type(e).__name__}: {e}', case=case)
        return r
    C = np.asarray(gm.correlation.to_numpy(), float)
    consts = [j for j in range(d) if df.iloc[:, j].nunique() == 1]

    # ---- record mode ---------------------------------------------------------------------------------------
    protocol_ok = True
    for seedform in ('none', 'int', 'rs'):
        for rows in (1, 2, 7, 1000):
            if rows == 1000 and seedform != 'none':
                continue
            rs = {'none': None, 'int': 11, 'rs': np.random.RandomState(7)}[seedform]
            gm.set_random_state(rs)
            np.random.seed(31)
            with seams.seam() as log:
                r.tr()
                try:
                    out = gm.sample(rows)
                except Exception as e:
                    r.violation(f'{sig}:sample-raises:{type(e).__name__}', f'{tag}: sample({rows}) raised '
                                f'{type(e).__name__}: {e}', case=case)
                    return r
            r.ev()
            r.state((t, cfg, seedform, rows))
            if list(out.columns) != cols or len(out) != rows:
                r.violation(f'{sig}:schema', f'{tag}: sample({rows}) has {len(out)} rows and columns {list(out.columns)}, '
                            f'training columns are {cols}', case=case)
                return r
            O = out.to_numpy(dtype=float)
            if np.isnan(O).any():
                r.violation(f'{sig}:missing-values', f'{tag}: sample({rows}) contains NaN', case=case)
                return r
            for j in consts:
                if not np.all(O[:, j] == df.iloc[0, j]):
                    r.violation(f'{sig}:constant-column', f'{tag}: constant training column {cols[j]!r} is not reproduced',
                                case=case)
                    return r
            if not protocol_ok:
                continue
            dr = seams.draws(log)
            ok_draw = len(dr) == 1 and dr[0][0] == 'multivariate_normal'
            if ok_draw:
                name, args, kw, Z = dr[0]
                mean = np.asarray(args[0] if args else kw['mean'], float)
                cov = np.asarray(args[1] if len(args) > 1 else kw['cov'], float)
                size = kw.get('size', args[2] if len(args) > 2 else None)
                ok_draw = (mean.shape == (d,) and np.all(mean == 0) and cov.shape == (d, d) and
                           np.max(np.abs(cov - C)) <= 1e-12 and size == rows)
            if not ok_draw:
                # a different (possibly equally valid) way of drawing the normal scores: the exact identity and the scripted
                # environment no longer apply; the distributional clauses are decided on a large seeded sample instead
                protocol_ok = False
                r.hit('protocol-changed')
                continue
            Z = np.asarray(Z, float).reshape(rows, d)
            for j, (c, u) in enumerate(zip(cols, gm.univariates)):
                exp = np.asarray(u.percent_point(stats.norm.cdf(Z[:, j])), float)
                if not np.array_equal(O[:, j], exp):
                    r.violation(f'{sig}:inverse-marginal-transform', f'{tag}: sampled column {c!r} is not '
                                f'percent_point_{c}(Phi(z_{c})) of the normal draw (first row {O[0, j]!r} vs {exp[0]!r})',
                                case=case, column=str(c))
                    return r
                if j in consts and not np.all(O[:, j] == df.iloc[0, j]):
                    r.violation(f'{sig}:constant-column', f'{tag}: constant training column {c!r} is not reproduced',
                                case=case)
                    return r
    gm.set_random_state(None)
    r.hit('record')

    # ---- scripted environment (or, if the draw protocol changed, a large seeded sample) ------------------------
    if protocol_ok:
        Zs = lattice_normal(C)
        with seams.seam(script={'multivariate_normal': lambda *a, **k: Zs.copy()}):
            r.tr()
            out = gm.sample(NSCRIPT)
        nrows, band_ks, band_tau, mode = NSCRIPT, 3.0 / np.sqrt(NSCRIPT), 0.03, 'script'
    else:
        nrows, mode = 4000, 'closure'
        band_ks, band_tau = 3.27 / np.sqrt(nrows), 0.08          # DKW / Hoeffding-type bands at 1e-9
        gm.set_random_state(4242 + int(seed))
        r.tr()
        out = gm.sample(nrows)
        gm.set_random_state(None)
    O = out.to_numpy(dtype=float)
    if O.shape != (nrows, d) or np.isnan(O).any():
        r.violation(f'{sig}:schema', f'{tag}: {mode} sample has shape {O.shape} / NaN', case=case)
        return r
    worst_ks = 0.0
    for j, (c, u) in enumerate(zip(cols, gm.univariates)):
        if j in consts:
            continue
        if protocol_ok:
            # monotone transform of the scores
            order = np.argsort(Zs[:, j], kind='stable')
            if np.any(np.diff(O[order, j]) < -1e-9 * (abs(O[:, j]).max() + 1)):
                r.violation(f'{sig}:transform-not-monotone', f'{tag}: z -> percent_point_{c}(Phi(z)) is not non-decreasing',
                            case=case)
                return r
        fin = np.isfinite(O[:, j])
        F = np.asarray(u.cdf(O[fin, j]), float)
        # KS distance between the law of the sampled column and the fitted marginal (two-sided, from the definition)
        Fs = np.sort(F)
        m = len(Fs)
        ks = max(np.max(np.arange(1, m + 1) / m - Fs), np.max(Fs - np.arange(0, m) / m))
        # a marginal with atoms (ties in the output) is compared at the atoms only
        worst_ks = max(worst_ks, ks)
        r.ev()
        if ks > band_ks and len(np.unique(O[fin, j])) > 0.5 * m:
            r.violation(f'{sig}:marginal-law', f'{tag}: sampled column {c!r} is {ks:.4f} (KS) from its fitted marginal '
                        f'(band {band_ks:.4f})', case=case, column=str(c))
            return r
    r['extra']['max_script_ks_x1000'] = worst_ks * 1000
    worst_tau = 0.0
    for i in range(d):
        for j in range(i + 1, d):
            if i in consts or j in consts:
                continue
            rho = float(np.clip(C[i, j], -1, 1))
            tm = 2 / np.pi * np.arcsin(rho)
            tt = tau_b(O[:, i], O[:, j])
            r.ev()
            if np.isnan(tt):
                continue
            worst_tau = max(worst_tau, abs(tt - tm))
            if abs(tt - tm) > band_tau:
                r.violation(f'{sig}:rank-dependence', f'{tag}: Kendall tau of sampled columns ({cols[i]!r},{cols[j]!r}) is '
                            f'{tt:.4f}, the fitted correlation {rho:.4f} implies {tm:.4f}', case=case)
                return r
    r['extra']['max_script_tau_dev_x1000'] = worst_tau * 1000
    r.hit(mode)

    # ---- recovery of the generating copula ----------------------------------------------------------------
    if cfg in ('default', 'kde-instance') and t[1] != 'near-singular':
        nc = info['nonconst']
        Rg = info['R']
        Cf = C[np.ix_(nc, nc)]
        err = float(np.max(np.abs(Cf - Rg)))
        band = 0.05 + 3.0 / np.sqrt(n)
        r['extra'][f'max_corr_err_n{n}_x1000'] = err * 1000
        if err > band:
            r.violation(f'{sig}:recovery:correlation', f'{tag}: fitted correlation is {err:.3f} from the generating one '
                        f'(band {band:.3f})', case=case)
        qs = np.arange(1, 200) / 200.0
        for k, j in enumerate(nc):
            kind, dist = info['marginals'][k]
            if kind != 'dist':
                continue
            pts = dist.ppf(qs)
            F = np.asarray(gm.univariates[j].cdf(pts), float)
            dd = float(np.max(np.abs(F - qs)))
            r['extra'][f'max_marg_err_n{n}_x1000'] = max(r['extra'].get(f'max_marg_err_n{n}_x1000', 0), dd * 1000)
            r.ev()
            if dd > 3.3 / np.sqrt(n):
                r.violation(f'{sig}:recovery:marginal', f'{tag}: fitted marginal of column {cols[j]!r} is {dd:.3f} from the '
                            f'generating CDF (band {3.3 / np.sqrt(n):.3f})', case=case)
                break
        r.hit('recovery')
    r.outcome(cfg)
    r['sample'] = {'table': list(map(str, t)), 'config': cfg, 'script_points': NSCRIPT, 'worst_ks': worst_ks,
                   'worst_tau_dev': worst_tau}
    return r


def finish(agg, tier):
    for k in ('record', 'recovery'):
        engine.require(agg['hits'].get(k, 0) >= 20, f'{k} under-explored')
    engine.require(agg['hits'].get('script', 0) + agg['hits'].get('closure', 0) >= 20, 'distributional part under-explored')
