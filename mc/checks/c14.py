"""C14 - serialisation round trips preserve every model's observable behaviour.

E2 (model checking): for every model of the zoo, breadth-first search over sequences of round-trip operations
{D: class from_dict(to_dict), G: generic from_dict entry point, J: D through JSON text, P: save/load via a file};
after EVERY transition the reached object is compared (class, to_dict, pdf/cdf/ppf/h/likelihood bitwise, seeded
sample streams) with the original. States are whole-object fingerprints.
"""
import copy
import json
import os
import shutil
import tempfile

import numpy as np

from mc import engine, seq, zoo

PROPERTY = 'C14'
LEVEL = 'model_checking'
ENGINE = 'E2-sequence-explorer'
TECHNIQUE = ('explicit-state BFS over all sequences (length <= 3, thorough 4) of round-trip operations {from_dict via class, '
             'via generic entry point, via JSON text, save/load} on every model of the zoo; differential oracle against '
             'the original object after every transition; states = whole-object fingerprints')
LEVEL_TEXT = ('all operation sequences up to the depth bound are executed on real objects for every model of the zoo '
              '(every univariate configuration x datasets incl. constant / tiny-scale / edge parameters, bivariate '
              'families, Gaussian multivariate configurations, three vine types), and every reached state is compared '
              'with the original. Models outside the zoo and longer histories are not explored.')
LEVEL_NOTE = 'trusted: pickle/json of the standard library; the observers of mc/zoo.py define "observable behaviour"'
RULE = ('zoo = 16 univariate configurations x 5 datasets (+unfitted), 9 bivariate (3 unfitted), 18 Gaussian multivariate '
        '(+unfitted), 9 vines (+3 unfitted); operations D,G,J,P; all sequences of length <= depth; non-trivial = fitted model; '
        'distinct = distinct (model, reached whole-object state)')
ASSUMPTIONS = ['observers: 10 probe points incl. far tails, 7 probabilities, two successive seeded sample calls']


def bounds(tier):
    return {'models': len(zoo.zoo(tier)), 'operations': ['D', 'G', 'J', 'P'], 'depth': 3 if tier == 'quick' else 4}


def cases(tier, seed):
    out = [(spec, 3 if tier == 'quick' else 4) for spec in zoo.zoo(tier)]
    out.sort(key=lambda c: (c[0][0] != 'vine', c[0][0] != 'gm'))
    return out


def generic_cls(kind):
    if kind == 'uni':
        from copulas.univariate import Univariate
        return Univariate
    if kind == 'biv':
        from copulas.bivariate import Bivariate
        return Bivariate
    from copulas.multivariate.base import Multivariate
    return Multivariate


def apply_op(op, m, kind, tmpdir, r, tag, case):
    """Returns the new object, or a zoo.Raised."""
    if op == 'P':
        path = os.path.join(tmpdir, 'model.bin')
        m.save(path)
        return type(m).load(path)
    d = m.to_dict()
    if op == 'J':
        d = json.loads(json.dumps(d))
    cls = generic_cls(kind) if op == 'G' else type(m)
    # (whether from_dict edits the dict it is given is C20's question, not C14's: it gets a private copy here)
    return cls.from_dict(copy.deepcopy(d))


def model_label(spec):
    if spec[0] == 'uni':
        m = spec[1]
        lab = m[0]
        if m[0] == 'kde' and (m[1] not in (None, 'scott') or m[3]):
            lab += '+nondefault-bw-weights'
        return lab
    return str(spec[1])


def run_case(case):
    spec, depth = case
    kind = spec[0]
    r = engine.new_result()
    fitted = spec[2] is not None
    tag0 = f'{spec}'
    label = model_label(spec)
    tmpdir = tempfile.mkdtemp(prefix='c14-', dir=os.environ.get('VERIF_SCRATCH', '/var/tmp'))
    try:
        orig = zoo.build(spec)
        ref = zoo.observe(orig, spec, light=True)
        ref_type = zoo.attempt(lambda: orig.to_dict().get('type', None)) if kind != 'biv' else None
        ops = ['D', 'G', 'P'] + (['J'] if kind in ('uni', 'biv', 'gm') else [])
        if not fitted and kind in ('uni', 'gm'):
            ops = ['P']          # to_dict of an unfitted univariate / Gaussian model raises NotFittedError by contract
        if kind == 'uni' and spec[1][0] == 'kde' and isinstance(spec[1][1], str) and ':' in spec[1][1]:
            ops = [o for o in ops if o != 'J']       # a numpy scalar / a callable in the dict: json is not a library round trip
        cache = {(): orig}

        def build(hist):
            if hist in cache:
                return cache[hist]
            m = build(hist[:-1])
            if isinstance(m, zoo.Raised):
                return m
            new = zoo.attempt(apply_op, hist[-1], m, kind, tmpdir, r, f'{tag0} after {"".join(hist)}', case)
            cache[hist] = new
            return new

        def on_state(obj, hist):
            r.tr()
            r.ev()
            tag = f'{tag0} after round trips {"".join(hist)}'
            op = hist[-1]
            if isinstance(obj, zoo.Raised):
                r.violation(f'C14:{kind}:{label}:{op}:raises:{obj.name}', f'{tag}: the round trip raised {obj.name}: '
                            f'{obj.msg}', case=case)
                return
            # class
            if kind == 'uni' and fitted:
                want = ref_type.rsplit('.', 1)[1] if isinstance(ref_type, str) else None
                if op != 'P' and type(obj).__name__ != want:
                    r.violation(f'C14:{kind}:{label}:class', f'{tag}: reconstructed as {type(obj).__name__}, the recorded '
                                f'type is {want}', case=case)
            elif type(obj) is not type(orig) and not (kind == 'biv'):
                r.violation(f'C14:{kind}:{label}:class', f'{tag}: reconstructed as {type(obj).__name__}, original is '
                            f'{type(orig).__name__}', case=case)
            if kind == 'biv' and type(obj) is not type(orig):
                r.violation(f'C14:{kind}:{label}:class', f'{tag}: reconstructed as {type(obj).__name__}, original is '
                            f'{type(orig).__name__}', case=case)
            got = zoo.observe(obj, spec, light=True)
            for field in ref:
                if not seq.values_equal(got.get(field), ref[field]):
                    r.violation(f'C14:{kind}:{label}:behaviour:{field}', f'{tag}: {field} differs from the original: '
                                f'{_short(got.get(field))} vs {_short(ref[field])}', case=case)
                    break

        def ops_of(hist):
            last = build(hist)
            return [] if isinstance(last, zoo.Raised) else ops

        states, trans, maxd = seq.bfs(build, ops_of, depth, on_state)
        r.add('states', states)
        for k in cache:
            r.state((spec, k) if not isinstance(cache[k], zoo.Raised) else (spec, 'raised', k))
        r['states'] = [engine.digest((spec, i)) for i in range(states)]
        if fitted:
            r.nontriv()
        r.hit(f'kind:{kind}')
        r.hit('fitted' if fitted else 'unfitted')
        r.outcome(f'{kind}:states={states}')
        r['sample'] = {'model': [str(x) for x in spec], 'operations': ops, 'depth': depth, 'states': states,
                       'transitions': trans, 'example_history': ''.join(max(cache, key=len))}
    finally:
        shutil.rmtree(tmpdir, ignore_errors=True)
    return r


def _short(v):
    s = repr(v)
    return s if len(s) < 160 else s[:157] + '...'


def finish(agg, tier):
    for k in ('kind:uni', 'kind:biv', 'kind:gm', 'kind:vine', 'unfitted'):
        engine.require(agg['hits'].get(k, 0) >= 3, f'{k} under-explored')
    engine.require(agg['trans'] >= 2000, 'too few transitions explored')
