"""C07 - density and conditional CDF are the derivatives of the CDF.

E1: family x theta x grid^2 (+ u in {0,1} columns) x batch layouts; oracle = mpmath derivatives of the
generator construction, monotonicity, rectangle / line integrals by adaptive quadrature of the real pdf.
"""
import numpy as np
from mc import alphabets as A
from mc import engine
from mc.lib import grid_pairs, make_biv

PROPERTY = 'C07'
LEVEL = 'exploration'
ENGINE = 'E1-product-explorer'
ENGINES = ('E1-product-explorer', 'E2-sequence-explorer')
TECHNIQUE = ('bounded-exhaustive enumeration of family x theta x (u,v)-grid x batch-layout alphabet; oracle = '
             'mpmath derivatives of the generator construction plus quadrature of the real density over every '
             'cell of a partition of [1e-4,1-1e-4]^2')
LEVEL_TEXT = ('every (family, theta, u, v, layout) of the alphabet is executed and compared with dC/dv and '
              'd2C/dudv of the reference construction; every partition cell and every grid-column segment is '
              'integrated. Between grid points only the integral identities constrain the code: exploration.')
LEVEL_NOTE = 'trusted: mpmath, own adaptive Gauss-Legendre quadrature (mc/quadrature.py, self-tested); alphabet and tolerances as in DESIGN.md C07'
RULE = ('every (family, theta) x every (u,v) in grid^2 in [1e-4,1-1e-4]^2 (+ u in {0,1}) for partial_derivative, '
        'probability_density, log_probability_density in 4 batch layouts; + every cell of the k x k partition '
        '(dblquad) and every grid-column segment (quad); non-trivial = interior point; distinct = distinct '
        '(family,theta,u,v)')
ASSUMPTIONS = ['mpmath 40-digit arithmetic', 'adaptive Gauss-Legendre 12/24 error estimates', 'theta alphabet |tau|<=0.8']

TOL_H = 1e-8
PART = {'quick': [1e-4, 0.05, 0.3, 0.5, 0.7, 0.95, 1 - 1e-4],
        'thorough': [1e-4, 0.01, 0.05, 0.15, 0.3, 0.5, 0.7, 0.85, 0.95, 0.99, 1 - 1e-4]}


def bounds(tier):
    return {'grid': len(A.tier_grid(tier)), 'partition_cells': (len(PART[tier]) - 1) ** 2,
            'thetas': {k: len(v) for k, v in A.THETAS[tier].items()}}


def cases(tier, seed):
    out = []
    for fam, ths in A.THETAS[tier].items():
        for th in sorted(ths):
            out.append((fam, th, tier, 'points'))
            out.append((fam, th, tier, 'integrals'))
        out.append((fam, 0.0, tier, 'history'))
    out.append(('independence', 0.0, tier, 'independence'))
    for fam in ('clayton', 'gumbel', 'frank'):
        out.append((fam, 0.0, tier, 'int-theta'))
    out.append(('frank', 0.0, tier, 'tiny-theta'))
    return out


def _layouts(r, f, P, name, sig, case, fam, th):
    alone = np.array([np.asarray(f(P[i:i + 1]), float)[0] for i in range(len(P))])
    full = np.asarray(f(P.copy()), float)
    same = np.array(P, dtype=float)          # the same array object twice: no in-place edits, same answer
    a1, a2 = np.asarray(f(same), float), np.asarray(f(same), float)
    if not np.array_equal(same, P) or not np.array_equal(a1, a2, equal_nan=True):
        r.violation(f'{sig}:{name}:argument-reuse', f'{fam} theta={th}: {name} '
                    f'{"modified its argument" if not np.array_equal(same, P) else "answers differently the second time"} '
                    f'when the same array object is evaluated twice', case=case)
    ro = P.copy()                            # a read-only batch (what DataFrame.to_numpy() hands out): same answer, no error
    ro.flags.writeable = False
    try:
        ans_ro = np.asarray(f(ro), float)
        if not np.array_equal(ans_ro, full, equal_nan=True):
            r.violation(f'{sig}:{name}:read-only-input', f'{fam} theta={th}: {name} of a read-only array differs from the same '
                        f'values in a writeable array', case=case)
    except Exception as e:
        r.violation(f'{sig}:{name}:read-only-input:raises', f'{fam} theta={th}: {name} of a read-only array raised '
                    f'{type(e).__name__}: {e}', case=case)
    keep = f(P.copy())                       # a returned result is a value: later calls must not rewrite it
    kept = np.array(keep, float)
    same[:] = P[::-1]                        # the same object refilled in place: the answer is a function of the values
    refilled = np.asarray(f(same), float)[::-1]
    if not np.array_equal(np.asarray(keep, float), kept, equal_nan=True):
        r.violation(f'{sig}:{name}:result-rewritten-by-later-call', f'{fam} theta={th}: the array returned by {name} changed when '
                    f'{name} was called again on the same copula', case=case)
    rev = np.asarray(f(P[::-1].copy()), float)[::-1]
    k = -(-1000 // len(P))
    tiled = np.asarray(f(np.tile(P, (k, 1))), float).reshape(k, len(P))
    r.tr(len(P) + 4)
    r.ev(len(P) * (4 + k))
    for lname, arr in (('full', full), ('reversed', rev), ('tile-last', tiled[-1]), ('same-object-refilled-in-place', refilled)):
        same = (np.abs(arr - alone) <= 1e-13 * np.maximum(1, np.abs(alone))) | \
               (~np.isfinite(arr) & ~np.isfinite(alone))
        if not same.all():
            i = int(np.nonzero(~same)[0][0])
            r.violation(f'{sig}:{name}:batch-dependence',
                        f'{fam} theta={th}: {name} row {P[i].tolist()} gives {arr[i]!r} in layout {lname} but '
                        f'{alone[i]!r} alone', case=case)
            break
    return alone


INT_THETAS = {'clayton': (1, 2, 4, 8), 'gumbel': (1, 2, 3, 5), 'frank': (-10, -3, -1, 1, 3, 10)}


def _int_theta(r, fam, g, sig, case):
    """A parameter given as an integer (Python int, numpy int64 - e.g. read from JSON) means the same copula as the float."""
    P = grid_pairs(g, g)
    y, v = P[:, 0].copy(), P[:, 1].copy()
    for th in INT_THETAS[fam]:
        ref = make_biv(fam, float(th))
        want = {}
        with np.errstate(all='ignore'):
            for meth in ('partial_derivative', 'probability_density', 'log_probability_density', 'cumulative_distribution'):
                want[meth] = np.asarray(getattr(ref, meth)(P.copy()), float)
            want['percent_point'] = np.asarray(ref.percent_point(y[::9].copy(), v[::9].copy()), float)
        for kind, val in (('int', int(th)), ('numpy.int64', np.int64(th))):
            cop = make_biv(fam, float(th))
            cop.theta = val
            r.state((fam, th, kind))
            for meth, w in want.items():
                r.tr()
                r.ev(len(w))
                try:
                    with np.errstate(all='ignore'):
                        got = np.asarray(cop.percent_point(y[::9].copy(), v[::9].copy()) if meth == 'percent_point'
                                         else getattr(cop, meth)(P.copy()), float)
                except Exception as e:
                    r.violation(f'{sig}:int-theta:{meth}:raises', f'{fam} theta={val!r} ({kind}): {meth} raised '
                                f'{type(e).__name__}: {e}', case=case)
                    continue
                okm = (np.abs(got - w) <= 1e-12 * np.maximum(1, np.abs(w))) | (~np.isfinite(got) & ~np.isfinite(w))
                if got.shape != w.shape or not okm.all():
                    i = int(np.nonzero(~okm)[0][0]) if got.shape == w.shape else 0
                    r.violation(f'{sig}:int-theta:{meth}', f'{fam}: {meth} with theta={val!r} given as {kind} differs from '
                                f'theta={float(th)!r}: {got.ravel()[i]!r} vs {w.ravel()[i]!r} at point #{i}', case=case)
    r.nontriv(len(INT_THETAS[fam]) * 2)
    r.hit('int-theta')
    r['sample'] = {'family': fam, 'int_thetas': list(INT_THETAS[fam])}
    return r


def _tiny_theta(r, g, sig, case):
    """Frank with 0 < |theta| << 1 is within |theta| of the independence copula (the closed form loses ~1e-8 there, so the
    band is 1e-6; thetas below 1e-8 are not explored because the documented formula itself cancels)."""
    P = grid_pairs(g, g)
    u, v = P[:, 0], P[:, 1]
    for th in (1e-5, -1e-5, 1e-6, -1e-6, 1e-7, -1e-7, 3e-8, -3e-8, 1e-8, -1e-8):
        cop = make_biv('frank', th, tau=th / 9)
        band = 1e-6 + 6 * abs(th)
        with np.errstate(all='ignore'):
            got = {'probability_density': (np.asarray(cop.probability_density(P.copy()), float), np.ones(len(P))),
                   'partial_derivative': (np.asarray(cop.partial_derivative(P.copy()), float), u),
                   'cumulative_distribution': (np.asarray(cop.cumulative_distribution(P.copy()), float), u * v),
                   'log_probability_density': (np.asarray(cop.log_probability_density(P.copy()), float), np.zeros(len(P))),
                   'percent_point': (np.asarray(cop.percent_point(u[::9].copy(), v[::9].copy()), float), u[::9])}
        r.tr(5)
        r.state(('frank-tiny', th))
        for meth, (a, b) in got.items():
            r.ev(len(a))
            if a.shape != b.shape or not np.all(np.abs(a - b) <= band):
                i = int(np.argmax(np.abs(a - b))) if a.shape == b.shape else 0
                r.violation(f'{sig}:tiny-theta:{meth}', f'frank theta={th!r}: {meth} = {a.ravel()[i]!r} at grid point #{i}, the '
                            f'independence limit is {np.ravel(b)[i]!r} (band {band:.1e})', case=case)
    r.nontriv(10)
    r.hit('tiny-theta')
    r['sample'] = {'family': 'frank', 'thetas': [1e-5, 1e-6, 1e-7, 3e-8, 1e-8]}
    return r


def _independence(r, g, sig, case):
    """The parameter-free fourth family: C = uv, dC/dv = u, density 1 on the unit square; same batch layouts."""
    from copulas.bivariate.base import Bivariate
    from copulas.bivariate.independence import Independence
    for how, cop in (('Independence()', Independence()), ("Bivariate(copula_type='independence')",
                                                           Bivariate(copula_type='independence'))):
        P = grid_pairs([0.0] + g + [1.0], g)
        h = _layouts(r, cop.partial_derivative, P, 'partial_derivative', sig, case, 'independence', None)
        c = _layouts(r, cop.probability_density, P, 'probability_density', sig, case, 'independence', None)
        C = _layouts(r, cop.cumulative_distribution, P, 'cumulative_distribution', sig, case, 'independence', None)
        with np.errstate(all='ignore'):
            lc = np.asarray(cop.log_probability_density(P.copy()), float)
        r.ev(4 * len(P))
        r.nontriv()
        r.state(('independence', how))
        if not np.array_equal(h, P[:, 0]):
            r.violation(f'{sig}:h:value', f'{how}: partial_derivative is not dC/dv = u', case=case)
        if not np.array_equal(c, np.ones(len(P))):
            r.violation(f'{sig}:pdf:value', f'{how}: probability_density is not 1 on the unit square', case=case)
        if not np.allclose(C, P[:, 0] * P[:, 1], rtol=0, atol=1e-15):
            r.violation(f'{sig}:cdf:value', f'{how}: cumulative_distribution is not u*v', case=case)
        if not np.array_equal(lc, np.zeros(len(P))):
            r.violation(f'{sig}:logpdf', f'{how}: log_probability_density is not log(pdf) = 0', case=case)
        # the documented shortcuts pdf / cdf / ppf are the same functions
        for short, long_, args in (('pdf', 'probability_density', (P.copy(),)), ('cdf', 'cumulative_distribution', (P.copy(),)),
                                   ('ppf', 'percent_point', (P[:, 0].copy(), P[:, 1].copy()))):
            r.tr(2)
            try:
                a1 = np.asarray(getattr(cop, short)(*[x.copy() for x in args]), float)
                a2 = np.asarray(getattr(cop, long_)(*[x.copy() for x in args]), float)
            except Exception as e:
                r.violation(f'{sig}:shortcut:{short}:raises', f'{how}: {short} / {long_} raised {type(e).__name__}: {e}', case=case)
                continue
            if not np.array_equal(a1, a2, equal_nan=True):
                r.violation(f'{sig}:shortcut:{short}', f'{how}: {short} differs from {long_}', case=case)
    r.outcome('independence')
    r.hit('independence')
    r['sample'] = {'family': 'independence', 'grid': len(g)}
    return r


def run_case(case):
    from mc.ref.archimedean import Ref
    fam, th, tier, part = case
    r = engine.new_result()
    sig = f'C07:{fam}'
    g = list(A.tier_grid(tier))
    if part == 'independence':
        return _independence(r, g, sig, case)
    if part == 'int-theta':
        return _int_theta(r, fam, g, sig, case)
    if part == 'tiny-theta':
        return _tiny_theta(r, g, sig, case)
    if part != 'history':
        cop = make_biv(fam, th)
        ref = Ref(fam, th)
    if part == 'history':
        from mc.lib import history_walk
        history_walk(r, fam, sorted(A.THETAS[tier][fam]),
                     ['partial_derivative', 'probability_density', 'log_probability_density'], grid_pairs(g, g),
                     sig, case)
        r.outcome(f'{fam}:history')
        return r
    if part == 'integrals':
        return _integrals(r, cop, ref, fam, th, tier, sig, case)

    # ---------------- conditional CDF -----------------------------------------------------------
    gu = [0.0] + g + [1.0]
    P = grid_pairs(gu, g)                       # u in {0} U g U {1}, v in g
    h = _layouts(r, cop.partial_derivative, P, 'partial_derivative', sig, case, fam, th)
    H = h.reshape(len(gu), len(g))
    href = np.array([float(ref.h(u, v)) for u, v in P]).reshape(H.shape)
    r.ev(H.size)
    if not np.all(np.isfinite(H)):
        i, j = np.argwhere(~np.isfinite(H))[0]
        r.violation(f'{sig}:h:non-finite', f'{fam} theta={th}: partial_derivative({gu[i]},{g[j]})={H[i, j]}',
                    case=case)
    else:
        err = np.abs(H - href)
        r['extra']['max_h_err'] = float(err.max())
        if err.max() > TOL_H:
            i, j = np.unravel_index(np.argmax(err), err.shape)
            where = 'limit-u0' if gu[i] == 0 else 'limit-u1' if gu[i] == 1 else 'value'
            r.violation(f'{sig}:h:{where}', f'{fam} theta={th}: partial_derivative({gu[i]},{g[j]})={H[i, j]!r} '
                        f'but dC/dv={href[i, j]!r}', case=case, err=float(err.max()))
        if H.min() < -1e-12 or H.max() > 1 + 1e-12:
            r.violation(f'{sig}:h:range', f'{fam} theta={th}: partial_derivative outside [0,1]: '
                        f'[{H.min()!r},{H.max()!r}]', case=case)
        dec = np.diff(H, axis=0) < -1e-12
        if dec.any():
            i, j = np.argwhere(dec)[0]
            r.violation(f'{sig}:h:not-monotone', f'{fam} theta={th}: partial_derivative decreases in u between '
                        f'u={gu[i]} and {gu[i + 1]} at v={g[j]}: {H[i, j]!r} -> {H[i + 1, j]!r}', case=case)

    # ---------------- density -------------------------------------------------------------------
    Q = grid_pairs(g, g)
    c = _layouts(r, cop.probability_density, Q, 'probability_density', sig, case, fam, th)
    cref = np.array([float(ref.c(u, v)) for u, v in Q])
    r.ev(len(Q))
    if not np.all(np.isfinite(c)):
        i = int(np.nonzero(~np.isfinite(c))[0][0])
        r.violation(f'{sig}:pdf:non-finite', f'{fam} theta={th}: pdf{tuple(Q[i])}={c[i]}', case=case)
    else:
        rel = np.abs(c - cref) / (1e-6 * np.abs(cref) + 1e-9)
        r['extra']['max_pdf_relerr'] = float((np.abs(c - cref) / np.maximum(np.abs(cref), 1e-300)).max())
        if rel.max() > 1:
            i = int(np.argmax(rel))
            bucket = 'high-theta' if (fam == 'frank' and abs(th) >= 8) else 'value'
            r.violation(f'{sig}:pdf:{bucket}', f'{fam} theta={th}: pdf{tuple(Q[i])}={c[i]!r} but d2C/dudv='
                        f'{cref[i]!r} (rel err {abs(c[i] - cref[i]) / abs(cref[i]):.2e})', case=case)
        if c.min() < 0:
            r.violation(f'{sig}:pdf:negative', f'{fam} theta={th}: negative density {c.min()!r}', case=case)
        C2 = c.reshape(len(g), len(g))
        asym = np.abs(C2 - C2.T) / np.maximum(np.abs(C2), 1e-300)
        if asym.max() > 1e-9:
            i, j = np.unravel_index(np.argmax(asym), asym.shape)
            r.violation(f'{sig}:pdf:asymmetric', f'{fam} theta={th}: pdf({g[i]},{g[j]})={C2[i, j]!r} != '
                        f'pdf({g[j]},{g[i]})={C2[j, i]!r}', case=case)
        with np.errstate(all='ignore'):
            lp = np.asarray(cop.log_probability_density(Q.copy()), float)
        r.tr()
        r.ev(len(Q))
        ok = np.abs(lp - np.log(c)) <= 1e-12 * np.maximum(1, np.abs(np.log(c)))
        if not ok.all():
            i = int(np.nonzero(~ok)[0][0])
            r.violation(f'{sig}:logpdf', f'{fam} theta={th}: log_probability_density{tuple(Q[i])}={lp[i]!r} != '
                        f'log(pdf)={np.log(c[i])!r}', case=case)
    # the documented shortcuts pdf / cdf are the same functions as the long names
    for short, long_ in (('pdf', 'probability_density'), ('cdf', 'cumulative_distribution')):
        a1 = np.asarray(getattr(cop, short)(Q.copy()), float)
        a2 = np.asarray(getattr(cop, long_)(Q.copy()), float)
        r.tr(2)
        if not np.array_equal(a1, a2, equal_nan=True):
            r.violation(f'{sig}:shortcut:{short}', f'{fam} theta={th}: {short} differs from {long_}', case=case)
    for u, v in Q:
        r.state((fam, th, float(u), float(v)))
    r.nontriv(len(Q))
    r.hit(f'family:{fam}')
    if fam == 'gumbel' and th == 1.0:
        r.hit('branch:gumbel-theta-1')
    r['sample'] = {'family': fam, 'theta': th, 'point': Q[len(Q) // 3].tolist(),
                   'pdf_lib': float(c[len(Q) // 3]), 'pdf_ref': float(cref[len(Q) // 3]),
                   'h_lib': float(H[3, 4]), 'h_ref': float(href[3, 4])}
    r.outcome(f'{fam}:points')
    return r


def _integrals(r, cop, ref, fam, th, tier, sig, case):
    from mc.quadrature import adaptive1d, adaptive2d
    part = PART[tier]
    bucket = 'high-theta' if (fam == 'frank' and abs(th) >= 8) else 'value'

    def pdf(X):
        r.tr()
        return np.asarray(cop.probability_density(np.array(X, dtype=float)), float)

    worst = 0.0
    done = False
    for i in range(len(part) - 1):
        for j in range(len(part) - 1):
            u1, u2, v1, v2 = part[i], part[i + 1], part[j], part[j + 1]
            val, est, n = adaptive2d(pdf, u1, u2, v1, v2)
            r.ev(n)
            vol = float(ref.volume(u1, u2, v1, v2))
            tol = 1e-6 * abs(vol) + 1e-9 + 10 * est
            worst = max(worst, abs(val - vol) / (abs(vol) + 1e-9))
            r.state((fam, th, 'cell', i, j))
            if not abs(val - vol) <= tol and not done:
                done = True
                r.violation(f'{sig}:pdf:cell-integral:{bucket}',
                            f'{fam} theta={th}: integral of pdf over [{u1},{u2}]x[{v1},{v2}] = {val!r} but C-volume '
                            f'= {vol!r}', case=case, quad_err=est)
    r['extra']['max_cell_relerr'] = worst
    # 1-D identity along grid columns: int pdf(u, v) du = h(u2, v) - h(u1, v)
    g = list(A.tier_grid(tier))
    done = False
    for v in g:
        hh = np.asarray(cop.partial_derivative(np.column_stack([g, np.full(len(g), v)])), float)
        r.tr()
        for k, (a, b) in enumerate(zip(g[:-1], g[1:])):
            val, est, n = adaptive1d(lambda u: pdf(np.column_stack([u, np.full(len(u), v)])), a, b)
            r.ev(n)
            d = float(hh[k + 1] - hh[k])
            r.state((fam, th, 'seg', a, b, v))
            # Frank's h loses ~1e-9 absolute for |theta| >= 8 (g(u)g(v)+g(u) cancellation), hence the wider floor there
            if not abs(val - d) <= 1e-6 * abs(d) + (1e-8 if bucket == 'high-theta' else 1e-9) + 10 * est and not done:
                done = True
                r.violation(f'{sig}:pdf:line-integral:{bucket}',
                            f'{fam} theta={th}: int_{a}^{b} pdf(u,{v})du = {val!r} but h({b},{v})-h({a},{v}) = {d!r}',
                            case=case, quad_err=est)
    r.nontriv((len(part) - 1) ** 2 + len(g) * (len(g) - 1))
    r.outcome(f'{fam}:integrals')
    r.hit('integral-cases')
    r['sample'] = {'family': fam, 'theta': th, 'cells': (len(part) - 1) ** 2, 'worst_cell_relerr': worst}
    return r


def finish(agg, tier):
    for fam in ('clayton', 'gumbel', 'frank'):
        engine.require(agg['hits'].get(f'family:{fam}', 0) >= 6, f'family {fam} under-explored')
    engine.require(agg['hits'].get('integral-cases', 0) >= 20, 'integral cases missing')
    engine.require(agg['hits'].get('history-cases', 0) == 3, 'history cases missing')
    for k_ in ('int-theta', 'tiny-theta'):
        engine.require(agg['hits'].get(k_, 0) >= 1 or any(k_ in v['sig'] for v in agg['viol']), f'{k_} cases missing')
    engine.require(agg['hits'].get('independence', 0) == 1 or any('independence' in v['sig'] for v in agg['viol']), 'independence case missing')
