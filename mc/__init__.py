"""Bounded model-checking machinery for sdv-dev/Copulas (see /verif/DESIGN.md)."""
