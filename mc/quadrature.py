"""Deterministic adaptive Gauss-Legendre quadrature that calls the integrand on whole batches."""
import numpy as np

_GL = {n: np.polynomial.legendre.leggauss(n) for n in (12, 24)}


def _gl2(f, u1, u2, v1, v2, n):
    x, w = _GL[n]
    us = 0.5 * (u2 - u1) * x + 0.5 * (u2 + u1)
    vs = 0.5 * (v2 - v1) * x + 0.5 * (v2 + v1)
    U, V = np.meshgrid(us, vs, indexing='ij')
    vals = np.asarray(f(np.column_stack([U.ravel(), V.ravel()])), float).reshape(n, n)
    return 0.25 * (u2 - u1) * (v2 - v1) * float(w @ vals @ w), n * n


def adaptive2d(f, u1, u2, v1, v2, rtol=1e-8, atol=1e-12, depth=0, maxdepth=6):
    """Integral of f over a rectangle; f takes an (n,2) array. Returns (value, error estimate, evals)."""
    a, na = _gl2(f, u1, u2, v1, v2, 12)
    b, nb = _gl2(f, u1, u2, v1, v2, 24)
    err = abs(a - b)
    if err <= rtol * abs(b) + atol or depth >= maxdepth or not np.isfinite(b):
        return b, err, na + nb
    um, vm = 0.5 * (u1 + u2), 0.5 * (v1 + v2)
    tot, etot, ntot = 0.0, 0.0, na + nb
    for (a1, a2, b1, b2) in ((u1, um, v1, vm), (u1, um, vm, v2), (um, u2, v1, vm), (um, u2, vm, v2)):
        v, e, n = adaptive2d(f, a1, a2, b1, b2, rtol, atol / 4, depth + 1, maxdepth)
        tot += v
        etot += e
        ntot += n
    return tot, etot, ntot


def _gl1(f, a, b, n):
    x, w = _GL[n]
    xs = 0.5 * (b - a) * x + 0.5 * (b + a)
    return 0.5 * (b - a) * float(w @ np.asarray(f(xs), float)), n


def adaptive1d(f, a, b, rtol=1e-9, atol=1e-13, depth=0, maxdepth=12):
    """Integral of a vectorised f over [a,b]. Returns (value, error estimate, evals)."""
    p, n1 = _gl1(f, a, b, 12)
    q, n2 = _gl1(f, a, b, 24)
    err = abs(p - q)
    if err <= rtol * abs(q) + atol or depth >= maxdepth or not np.isfinite(q):
        return q, err, n1 + n2
    m = 0.5 * (a + b)
    l, el, nl = adaptive1d(f, a, m, rtol, atol / 2, depth + 1, maxdepth)
    r, er, nr = adaptive1d(f, m, b, rtol, atol / 2, depth + 1, maxdepth)
    return l + r, el + er, n1 + n2 + nl + nr


def selftest():
    v, e, n = adaptive2d(lambda X: np.exp(X[:, 0]) * np.cos(X[:, 1]), 0, 1, 0, 2)
    assert abs(v - (np.e - 1) * np.sin(2)) < 1e-12, v
    v, e, n = adaptive1d(lambda x: 1 / np.sqrt(x), 1e-6, 1)
    assert abs(v - (2 - 2e-3)) < 1e-6 + 10 * e, (v, e)
    return True
