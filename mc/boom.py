"""Deliberately broken 'distributions' used as failing candidates (NOT Univariate subclasses, so that they never
appear in Univariate.__subclasses__())."""


class Boom:
    """fit always raises."""

    def __init__(self, *a, **k):
        pass

    def fit(self, X):
        raise ValueError('Boom: this distribution cannot be fitted')


class BoomCdf:
    """fit succeeds, the CDF cannot be evaluated (so the KS statistic cannot be computed)."""

    def __init__(self, *a, **k):
        pass

    def fit(self, X):
        self.fitted = True

    def cdf(self, X):
        raise RuntimeError('BoomCdf: no cdf')

    cumulative_distribution = cdf


class Flaky:
    """A distribution that cannot be fitted to data containing negative values and otherwise behaves like a Gaussian
    (delegation, not inheritance: it must not become a Univariate subclass)."""

    def __init__(self, *a, **k):
        from copulas.univariate import GaussianUnivariate
        self._inner = GaussianUnivariate()
        self.fitted = False

    def fit(self, X):
        import numpy as np
        if np.min(X) < 0:
            raise ValueError('Flaky: negative data')
        self._inner.fit(X)
        self.fitted = True

    def __getattr__(self, name):
        if name.startswith('__') or name == '_inner':
            raise AttributeError(name)
        return getattr(self._inner, name)


class FlakyUniform(Flaky):
    """Like Flaky, but behaves like a Uniform when it can be fitted (so it is distinguishable from the Gaussian fallback)."""

    def __init__(self, *a, **k):
        from copulas.univariate import UniformUnivariate
        self._inner = UniformUnivariate()
        self.fitted = False


class GaussianUnivariate(FlakyUniform):
    """A user class that merely SHARES ITS NAME with a library class (qualified name mc.boom.GaussianUnivariate); it behaves
    like a Uniform and accepts any data."""

    def fit(self, X):
        self._inner.fit(X)
        self.fitted = True
