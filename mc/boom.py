"""Deliberately broken 'distributions' used as failing candidates (NOT Univariate subclasses, so that they never
appear in Univariate.__subclasses__())."""


class Boom:
    """fit always raises."""

    def __init__(self, *a, **k):
        pass

    def fit(self, X):
        raise ValueError('Boom: this distribution cannot be fitted')


class BoomCdf:
    """fit succeeds, the CDF cannot be evaluated (so the KS statistic cannot be computed)."""

    def __init__(self, *a, **k):
        pass

    def fit(self, X):
        self.fitted = True

    def cdf(self, X):
        raise RuntimeError('BoomCdf: no cdf')

    cumulative_distribution = cdf
