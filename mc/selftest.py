"""Self-test of the reference models and of the explorer plumbing (run by setup_cmd)."""
import sys


def main():
    from mc import engine
    engine.bootstrap()
    from mc.ref import archimedean
    w = archimedean.selftest()
    print(f'selftest: archimedean reference identities ok (worst residual {w:.1e})')
    try:
        from mc.ref import selftests
    except ImportError:
        selftests = None
    if selftests is not None:
        selftests.main()
    print('selftest: ok')
    return 0


if __name__ == '__main__':
    sys.exit(main())
