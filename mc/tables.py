"""Table zoo for the multivariate checks: lattice-generated Gaussian-copula tables with designed correlation,
marginal mixes, constant columns and non-sorted column names; structural (degenerate) tables; marginal
configurations for GaussianMultivariate."""
import numpy as np
import pandas as pd
from scipy import stats

from mc import alphabets as A

CORR_DESIGNS = ('identity', 'equi+', 'equi-', 'ar1', 'mixed', 'near-singular')
MARG_MIXES = ('normal', 'rotated', 'bimodal', 'integer', 'offset')
ROT = [stats.norm(1.0, 2.0), stats.gamma(2.0, loc=0.5, scale=1.5), stats.beta(2.0, 3.0, loc=-1, scale=4),
       stats.uniform(2.0, 5.0), stats.t(5.0, loc=0.0, scale=1.0), stats.lognorm(0.5, scale=2.0)]


def corr_matrix(design, d):
    if design == 'identity':
        R = np.eye(d)
    elif design == 'equi+':
        R = np.full((d, d), 0.5)
    elif design == 'equi-':
        R = np.full((d, d), -0.8 / (d - 1))
    elif design == 'ar1':
        R = np.array([[0.8 ** abs(i - j) for j in range(d)] for i in range(d)])
    elif design == 'mixed':
        R = np.eye(d)
        for i in range(d):
            for j in range(i + 1, d):
                R[i, j] = R[j, i] = (0.6 if (i + j) % 2 else -0.45) / (1 + 0.3 * (j - i - 1))
        w, V = np.linalg.eigh(R)
        R = (V * np.clip(w, 0.08, None)) @ V.T
        s = np.sqrt(np.diag(R))
        R = R / s[:, None] / s[None, :]
    elif design == 'near-singular':
        R = np.full((d, d), 0.3)
        R[0, 1] = R[1, 0] = 0.999
    else:
        raise ValueError(design)
    np.fill_diagonal(R, 1.0)
    return R


def column_names(d, kind):
    if kind == 'str':
        base = ['b', 'a', 'c', 'e', 'd', 'g', 'f']
        return base[:d]
    if kind == 'int':
        base = [2, 0, 1, 5, 3, 4, 6]
        return base[:d]
    return [f'col{j}' for j in range(d)]


def marginals(mix, d):
    out = []
    for j in range(d):
        if mix == 'normal':
            out.append(('dist', stats.norm(j, 1 + 0.5 * j)))
        elif mix == 'rotated':
            out.append(('dist', ROT[j % len(ROT)]))
        elif mix == 'bimodal':
            out.append(('bimodal', None) if j % 2 == 0 else ('dist', ROT[j % len(ROT)]))
        elif mix == 'integer':
            out.append(('integer', None) if j % 2 == 0 else ('dist', stats.norm(0, 1)))
        elif mix == 'offset':
            # large magnitude, small relative spread (epoch-timestamp like): relative range ~1e-6
            # ... and, from the fourth column on, a tiny absolute scale (sd 3e-9 around 2.5e-8)
            out.append(('dist', stats.norm(2.5e-8, 3e-9)) if j == 3 else
                       ('dist', stats.norm(1.7e9, 2000.0)) if j % 2 == 0 else ('dist', ROT[j % len(ROT)]))
    return out


def gaussian_copula_table(spec, shift=None):
    """spec = (d, corr design, marginal mix, const positions (tuple), n, names kind).
    Returns (DataFrame, info) with info = generating correlation / marginal descriptions of the non-constant columns."""
    from mc.uni import bimodal_ppf
    d, design, mix, consts, n, names = spec
    k = d - len(consts)                       # non-constant columns
    R = corr_matrix(design, k)
    P = A.lattice(n + 1, k, shift)[1:]
    Z = stats.norm.ppf(P) @ np.linalg.cholesky(R).T
    U = stats.norm.cdf(Z)
    margs = marginals(mix, k)
    cols = []
    it = 0
    for j in range(d):
        if j in consts:
            # non-dyadic constants (the mean of n copies need not be exact) and the falsy constant 0.0
            cols.append(np.full(n, (0.1, -3.3, 0.0)[(j + d) % 3]))
            continue
        kind, dist = margs[it]
        u = U[:, it]
        if kind == 'dist':
            x = dist.ppf(u)
        elif kind == 'bimodal':
            x = bimodal_ppf(u)
        else:
            x = np.floor(10 * u)
        cols.append(np.asarray(x, float))
        it += 1
    df = pd.DataFrame(dict(zip(column_names(d, names), cols)))
    df = df[column_names(d, names)]
    if mix == 'integer':
        # genuinely integer-typed columns
        for j, c in enumerate(df.columns):
            if j not in consts and margs[[k for k in range(d) if k not in consts].index(j)][0] == 'integer':
                df[c] = df[c].astype(np.int64)
    if names == 'int':
        # a non-default row index: labels must never be used as positions (a permutation of 0..n-1 for even d) and rows must never
        # be re-aligned to 0..n-1 (the same permutation shifted by 1000, i.e. no label inside 0..n-1, for odd d)
        perm = np.argsort((np.arange(n) * 7919) % n, kind='stable')
        df.index = pd.Index(perm if d % 2 == 0 else perm + 1000)
    elif names == 'plain' and d % 2 == 0:
        df.index = pd.Index([f'row{(i * 37) % n:05d}' for i in range(n)])       # string labels, scrambled order
    return df, {'R': R, 'marginals': margs, 'nonconst': [j for j in range(d) if j not in consts]}


def table_zoo(tier):
    ds = (2, 3, 4) if tier == 'quick' else (2, 3, 4, 5, 6)
    ns = (30, 300) if tier == 'quick' else (30, 300, 1000)
    out = []
    for d in ds:
        for design in CORR_DESIGNS:
            if design == 'equi-' and d == 2:
                pass
            mix = MARG_MIXES[(d + CORR_DESIGNS.index(design)) % len(MARG_MIXES)]
            n = ns[(d + CORR_DESIGNS.index(design)) % len(ns)]
            names = ('str', 'int', 'plain')[(d + CORR_DESIGNS.index(design)) % 3]
            out.append((d, design, mix, (), n, names))
        # constant columns at each position
        for pos in range(d):
            if d >= 3 or pos == 0:
                out.append((d, 'mixed' if d > 2 else 'equi+', 'rotated', (pos,), ns[0] if d % 2 else ns[1], 'str'))
        if d >= 4:
            out.append((d, 'ar1', 'normal', (0, d - 1), ns[1], 'int'))
    if tier != 'quick':
        # thorough: the complete product correlation design x marginal mix for d = 2, 3, 4 (the quick tier pairs each design with
        # one mix), with the column-name style and the row count rotating
        seen = set(out)
        for d in (2, 3, 4):
            for i, design in enumerate(CORR_DESIGNS):
                for j, mix in enumerate(MARG_MIXES):
                    t = (d, design, mix, (), (30, 300)[(i + j) % 2], ('str', 'int', 'plain')[(d + i + j) % 3])
                    if t not in seen and not any(u[:3] == t[:3] and u[3] == () for u in out):
                        out.append(t)
    return out


# ------------------------------------------------------------------------------------------------
# structural tables (C02): duplicates, anti-duplicates, affine copies, tiny tables


def structural_tables():
    n = 40
    q = A.midpoints(n)
    x = stats.norm.ppf(q)
    y = stats.gamma(2.0).ppf(((np.arange(n) * 17) % n + 0.5) / n)
    z = stats.uniform(0, 3).ppf(((np.arange(n) * 11) % n + 0.5) / n)
    w = stats.norm.ppf(((np.arange(n) * 7) % n + 0.5) / n) * 2 + 1
    out = {
        'dup(x,x,y)': pd.DataFrame({'x': x, 'x2': x, 'y': y}),
        'anti(x,-x,y)': pd.DataFrame({'x': x, 'mx': -x, 'y': y}),
        'affine(x,3x+1)': pd.DataFrame({'x': x, 'ax': 3 * x + 1}),
        'dup-after-unrelated(a,b,c,b)': pd.DataFrame({'a': y, 'b': x, 'c': z, 'd': x}),
        'anti-after-unrelated(a,b,c,-b)': pd.DataFrame({'a': w, 'b': y, 'c': z, 'd': -y}),
        'triple(x,x,x,y)': pd.DataFrame({'x': x, 'x2': x, 'x3': x, 'y': y}),
        'one-const': pd.DataFrame({'x': x, 'k': np.full(n, 2.0), 'y': y}),
        'two-const': pd.DataFrame({'k1': np.full(n, 2.0), 'x': x, 'k2': np.full(n, -1.0), 'y': y}),
        'all-but-one-const': pd.DataFrame({'k1': np.full(n, 2.0), 'x': x, 'k2': np.full(n, -1.0)}),
        'two-rows': pd.DataFrame({'p': [0.0, 1.0], 'q': [3.0, 2.0], 'r': [1.0, 5.0]}),
        'three-rows': pd.DataFrame({'p': [0.0, 1.0, 4.0], 'q': [3.0, 2.0, 2.5], 'r': [1.0, 5.0, 0.0]}),
        'integers': pd.DataFrame({'i': (np.arange(n) % 7), 'j': ((np.arange(n) * 3) % 5), 'k': np.arange(n) // 4}),
        'int-names-dup': pd.DataFrame({3: x, 1: y, 2: x}),
    }
    # one gross outlier: its standard score under a Gaussian marginal (6.1) lies beyond norm.ppf(1 - EPSILON) = 5.17, so the
    # clip of the property's formula is material for that row
    xo = x.copy()
    xo[5] = 1e3
    wo = w.copy()
    wo[[3, 30]] = [-4e4, 5e4]
    out['outlier(x*,y,z)'] = pd.DataFrame({'x': xo, 'y': y, 'z': z})
    out['outliers(w**,x,y)'] = pd.DataFrame({'w': wo, 'x': x + 0.5 * w, 'y': y})
    return out


def big_table(n=70001):
    """A long table (more rows than any plausible block size), negatively dependent columns."""
    P = A.lattice(n, 3)
    Z = stats.norm.ppf(P) @ np.linalg.cholesky(np.array([[1, -0.3, 0.5], [-0.3, 1, 0.1], [0.5, 0.1, 1.0]])).T
    return pd.DataFrame({'x': Z[:, 0], 'y': 3 + 2 * Z[:, 1], 'z': stats.uniform(1, 4).ppf(stats.norm.cdf(Z[:, 2]))})


# ------------------------------------------------------------------------------------------------
# marginal configurations

CONFIGS = ('default', 'gaussian-class', 'uniform-name', 'kde-instance', 'dict', 'truncated-class', 'beta-class',
           'gamma-class', 'gaussian-instance')


def make_config(name, columns):
    import copulas.univariate as U
    if name == 'default':
        return None
    if name == 'gaussian-class':
        return U.GaussianUnivariate
    if name == 'uniform-name':
        return 'copulas.univariate.uniform.UniformUnivariate'
    if name == 'kde-instance':
        return U.GaussianKDE(bw_method=0.5)
    if name == 'gaussian-instance':
        return U.GaussianUnivariate()          # an instance prototype of a class that stores no constructor arguments
    if name == 'kde-wide-instance':
        return U.GaussianKDE(bw_method=3.0)          # kernels far wider than the data: mass beyond the KDE's own bounds
    if name == 'truncated-class':
        return U.TruncatedGaussian
    if name == 'beta-class':
        return U.BetaUnivariate
    if name == 'gamma-class':
        return U.GammaUnivariate
    if name == 'dict':
        cyc = [U.GaussianUnivariate, U.GaussianKDE(bw_method='silverman'), 'copulas.univariate.uniform.UniformUnivariate']
        return {c: cyc[i % 3] for i, c in enumerate(columns) if i != 1}       # column 1 unnamed -> default
    raise ValueError(name)


def fit_gm(df, config, random_state=None):
    from copulas.multivariate import GaussianMultivariate
    dist = make_config(config, list(df.columns))
    kw = {} if random_state is None else {'random_state': random_state}
    gm = GaussianMultivariate(**kw) if dist is None else GaussianMultivariate(distribution=dist, **kw)
    gm.fit(df.copy())
    return gm
