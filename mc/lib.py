"""Thin helpers for driving the real library objects (no oracle logic here)."""
import numpy as np


def make_biv(family, theta, tau=None, random_state=None):
    from copulas.bivariate.base import Bivariate
    c = Bivariate(copula_type=family, random_state=random_state)
    c.theta = theta
    if tau is None:
        from mc.ref.archimedean import Ref
        tau = float(Ref(family, theta).tau())
    c.tau = tau
    return c


def grid_pairs(g1, g2=None):
    g2 = g1 if g2 is None else g2
    U, V = np.meshgrid(np.asarray(g1, float), np.asarray(g2, float), indexing='ij')
    return np.column_stack([U.ravel(), V.ravel()])


def relerr(a, b):
    a = np.asarray(a, float)
    b = np.asarray(b, float)
    return np.abs(a - b) / np.maximum(1.0, np.maximum(np.abs(a), np.abs(b)))


def fmt(x):
    return float(x) if np.ndim(x) == 0 else np.asarray(x).tolist()


def history_walk(r, fam, thetas, methods, X, sig, case, tol=1e-13):
    """E2 layer for the bivariate families: ONE object re-parameterised through `thetas` forwards and backwards must
    answer every method in `methods` on X exactly like a fresh object (state leaking between parameterisations)."""
    from mc.ref.archimedean import Ref
    order = list(thetas) + list(thetas)[::-1][1:]
    cop = make_biv(fam, order[0])
    for step, t in enumerate(order):
        cop.theta = t
        cop.tau = float(Ref(fam, t).tau())
        fresh = make_biv(fam, t)
        for m in methods:
            r.tr(2)
            r.ev(len(X))
            a = np.asarray(getattr(cop, m)(X.copy()), float)
            b = np.asarray(getattr(fresh, m)(X.copy()), float)
            same = (np.abs(a - b) <= tol * np.maximum(1, np.abs(b))) | (~np.isfinite(a) & ~np.isfinite(b))
            r.state((fam, 'hist', m, step, t))
            if not same.all():
                i = int(np.nonzero(~same)[0][0])
                r.violation(f'{sig}:history-dependence', f'{fam}: an object re-parameterised '
                            f'{" -> ".join(map(str, order[max(0, step - 2):step + 1]))} answers {m}({X[i].tolist()})='
                            f'{a[i]!r}, a fresh theta={t} object {b[i]!r}', case=case)
                return
    # second walk: the object was FITTED first (on a table whose Kendall tau is exactly 0 - or, where that fit is refused, on a
    # tau = 0.5 table), then only `theta` is assigned, as a user does: the answers belong to the theta the object has now
    import warnings
    from copulas.bivariate.base import Bivariate
    from mc import alphabets as A
    for tau0 in (0.0, 0.5):
        cop = Bivariate(copula_type=fam)
        try:
            with warnings.catch_warnings():
                warnings.simplefilter('ignore')
                cop.fit(A.designed_tau_array(60, tau0))
        except Exception:
            continue
        for step, t in enumerate(order):
            cop.theta = t
            fresh = make_biv(fam, t)
            for m in methods:
                r.tr(2)
                r.ev(len(X))
                a = np.asarray(getattr(cop, m)(X.copy()), float)
                b = np.asarray(getattr(fresh, m)(X.copy()), float)
                same = (np.abs(a - b) <= tol * np.maximum(1, np.abs(b))) | (~np.isfinite(a) & ~np.isfinite(b))
                r.state((fam, 'hist-fitted', tau0, m, step, t))
                if not same.all():
                    i = int(np.nonzero(~same)[0][0])
                    r.violation(f'{sig}:history-dependence', f'{fam}: an object fitted on a table with Kendall tau {tau0} and then '
                                f'given theta = {t} answers {m}({X[i].tolist()})={a[i]!r}, a fresh theta={t} object {b[i]!r}',
                                case=case)
                    return
    r.hit('history-cases')
