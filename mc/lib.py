"""Thin helpers for driving the real library objects (no oracle logic here)."""
import numpy as np


def make_biv(family, theta, tau=None, random_state=None):
    from copulas.bivariate.base import Bivariate
    c = Bivariate(copula_type=family, random_state=random_state)
    c.theta = theta
    if tau is None:
        from mc.ref.archimedean import Ref
        tau = float(Ref(family, theta).tau())
    c.tau = tau
    return c


def grid_pairs(g1, g2=None):
    g2 = g1 if g2 is None else g2
    U, V = np.meshgrid(np.asarray(g1, float), np.asarray(g2, float), indexing='ij')
    return np.column_stack([U.ravel(), V.ravel()])


def relerr(a, b):
    a = np.asarray(a, float)
    b = np.asarray(b, float)
    return np.abs(a - b) / np.maximum(1.0, np.maximum(np.abs(a), np.abs(b)))


def fmt(x):
    return float(x) if np.ndim(x) == 0 else np.asarray(x).tolist()
