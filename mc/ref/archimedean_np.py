"""float64, vectorised version of the generator construction (for bulk use inside the vine data-flow reference).

C = phi^-1(phi(u) + phi(v)),  h(u|v) = dC/dv = phi'(v) / phi'(C),  c = -phi''(C) phi'(u) phi'(v) / phi'(C)^3
with phi, phi', phi'' written out from the generators in the property text. Cross-checked against the 40-digit
mpmath reference in selftest().
"""
import numpy as np


def _gen(family, th):
    if family == 'clayton':
        phi = lambda t: (np.power(t, -th) - 1) / th                                  # noqa
        inv = lambda s: np.power(1 + th * s, -1 / th)                                # noqa
        d1 = lambda t: -np.power(t, -th - 1)                                         # noqa
        d2 = lambda t: (th + 1) * np.power(t, -th - 2)                               # noqa
    elif family == 'gumbel':
        phi = lambda t: np.power(-np.log(t), th)                                     # noqa
        inv = lambda s: np.exp(-np.power(s, 1 / th))                                 # noqa
        d1 = lambda t: -th * np.power(-np.log(t), th - 1) / t                        # noqa
        d2 = lambda t: th * np.power(-np.log(t), th - 2) * ((th - 1) + (-np.log(t))) / (t * t)   # noqa
    elif family == 'frank':
        d = np.expm1(-th)
        phi = lambda t: -np.log(np.expm1(-th * t) / d)                               # noqa
        inv = lambda s: -np.log1p(np.exp(-s) * d) / th                               # noqa
        d1 = lambda t: th * np.exp(-th * t) / np.expm1(-th * t)                      # noqa
        d2 = lambda t: th * th * np.exp(-th * t) / np.expm1(-th * t) ** 2            # noqa
    else:
        raise ValueError(family)
    return phi, inv, d1, d2


def cdf(family, th, u, v):
    phi, inv, _, _ = _gen(family, th)
    if family == 'gumbel' and th == 1:
        return u * v
    return inv(phi(u) + phi(v))


def h(family, th, u, v):
    """dC/dv."""
    if family == 'gumbel' and th == 1:
        return np.asarray(u, float) + 0 * np.asarray(v, float)
    phi, inv, d1, _ = _gen(family, th)
    with np.errstate(all='ignore'):
        return d1(v) / d1(inv(phi(u) + phi(v)))


def pdf(family, th, u, v):
    if family == 'gumbel' and th == 1:
        return np.ones(np.broadcast(u, v).shape)
    phi, inv, d1, d2 = _gen(family, th)
    with np.errstate(all='ignore'):
        c = inv(phi(u) + phi(v))
        return -d2(c) * d1(u) * d1(v) / d1(c) ** 3


def selftest():
    from mc.ref.archimedean import Ref
    worst = 0.0
    for fam, ths in (('clayton', [0.5, 2, 8]), ('gumbel', [1.25, 2, 5]), ('frank', [-5, 0.1, 5.74, 12.0])):
        for th in ths:
            r = Ref(fam, th)
            for u in (0.05, 0.4, 0.93):
                for v in (0.07, 0.5, 0.9):
                    e = [abs(float(r.C(u, v)) - cdf(fam, th, u, v)), abs(float(r.h(u, v)) - h(fam, th, u, v)),
                         abs(float(r.c(u, v)) - pdf(fam, th, u, v)) / float(r.c(u, v))]
                    worst = max(worst, *e)
                    assert max(e) < 1e-9, (fam, th, u, v, e)
    return True
