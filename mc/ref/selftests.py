"""Self-tests of the reference models (independent of copulas)."""


def main():
    from mc import quadrature
    from mc.ref import kendall
    assert quadrature.selftest()
    print('selftest: adaptive Gauss-Legendre quadrature ok')
    assert kendall.selftest()
    print('selftest: kendall tau-b reference ok')
    import importlib
    for name in ('kde', 'mvn', 'rvine', 'samplers', 'archimedean_np'):
        try:
            m = importlib.import_module(f'mc.ref.{name}')
        except ModuleNotFoundError:
            continue
        assert m.selftest()
        print(f'selftest: {name} reference ok')
