"""Independent reference samplers for the three Archimedean families (no code shared with copulas)."""
import numpy as np


def clayton_cond_inv(c, v, th):
    return np.power((np.power(c, -th / (1 + th)) - 1) * np.power(v, -th) + 1, -1 / th)


def frank_cond_inv(c, v, th):
    d = np.expm1(-th)
    b = np.expm1(-th * v)
    a = c * d / (1 + b * (1 - c))
    return -np.log1p(a) / th


def gumbel_marshall_olkin(n, th, rs):
    """Marshall-Olkin: positive stable frailty (Chambers-Mallows-Stuck), U_i = exp(-(E_i / V)^(1/theta))."""
    if th == 1:
        return rs.uniform(size=(n, 2))
    al = 1.0 / th
    T = rs.uniform(0, np.pi, n)
    W = rs.exponential(size=n)
    V = np.sin(al * T) / np.power(np.sin(T), 1 / al) * np.power(np.sin((1 - al) * T) / W, (1 - al) / al)
    E = rs.exponential(size=(n, 2))
    return np.exp(-np.power(E / V[:, None], al))


def gumbel_cond_inv(c, v, th, iters=80):
    """Vectorised bisection on the closed-form h of the Gumbel copula written from the generator:
    h(u|v) = phi'(v)/phi'(C), phi(t) = (-ln t)^theta."""
    x = -np.log(v)
    lo = np.zeros_like(c)
    hi = np.ones_like(c)
    for _ in range(iters):
        u = 0.5 * (lo + hi)
        with np.errstate(all='ignore'):
            y = -np.log(u)
            s = np.power(np.power(x, th) + np.power(y, th), 1 / th)      # -ln C
            # phi'(t) = -theta (-ln t)^(theta-1) / t
            h = (np.power(x, th - 1) / v) / (np.power(s, th - 1) / np.exp(-s))
        low = h < c
        lo = np.where(low, u, lo)
        hi = np.where(low, hi, u)
    return 0.5 * (lo + hi)


def sample(family, th, n, rs=None, points=None):
    """(n,2) sample (u, v). With `points` (an (n,2) array in (0,1)^2) the Rosenblatt push-forward of those points."""
    if points is None:
        if family == 'gumbel':
            return gumbel_marshall_olkin(n, th, rs)
        points = rs.uniform(size=(n, 2))
    v, c = points[:, 0], points[:, 1]
    if family == 'clayton':
        u = clayton_cond_inv(c, v, th)
    elif family == 'frank':
        u = frank_cond_inv(c, v, th)
    else:
        u = gumbel_cond_inv(c, v, th)
    return np.column_stack([u, v])


def selftest():
    from mc.ref.archimedean import Ref
    from mc.ref.kendall import tau_b
    rs = np.random.RandomState(1)
    for fam, th in (('clayton', 2.0), ('frank', 5.74), ('frank', -3.0), ('gumbel', 2.0)):
        r = Ref(fam, th)
        pts = rs.uniform(0.02, 0.98, size=(6, 2))
        X = sample(fam, th, 6, points=pts)
        for (u, v), (vv, c) in zip(X, pts):
            assert abs(float(r.h(u, v)) - c) < 1e-9, (fam, th, u, v, c, float(r.h(u, v)))
        Y = sample(fam, th, 1500, rs=rs)
        t = tau_b(Y[:, 0], Y[:, 1])
        assert abs(t - float(r.tau())) < 0.06, (fam, th, t)
        assert Y.min() > 0 and Y.max() < 1
    return True
