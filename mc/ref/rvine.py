"""Regular-vine structure checker on plain edge records (no copulas code).

An edge record is (L, R, D, parent_indices) where parent_indices are the positions of its two parents in the previous
tree (None in the first tree). `check` returns a list of violated clauses (empty when the sequence is a regular vine of
the requested shape).
"""
import collections
import itertools


def varset(e):
    return frozenset({e[0], e[1]}) | frozenset(e[2])


def _spanning(nodes, ends):
    parent = {n: n for n in nodes}

    def find(x):
        while parent[x] != x:
            parent[x] = parent[parent[x]]
            x = parent[x]
        return x
    errs = []
    for a, b in ends:
        if a not in parent or b not in parent:
            errs.append('edge end outside the node set')
            continue
        ra, rb = find(a), find(b)
        if ra == rb:
            errs.append('cycle')
        parent[ra] = rb
    if len({find(n) for n in nodes}) != 1:
        errs.append('disconnected')
    return errs


def check(trees, d, vtype, expected_trees=None):
    """trees: list (tree 1 first) of lists of edge records."""
    errs = []
    if expected_trees is not None and len(trees) != expected_trees:
        errs.append(f'depth: {len(trees)} trees, expected {expected_trees}')
    seen_pairs = set()
    for k, E in enumerate(trees, start=1):
        if len(E) != d - k:
            errs.append(f'T{k}: {len(E)} edges, expected {d - k}')
        if k == 1:
            nodes = list(range(d))
            ends = [(e[0], e[1]) for e in E]
        else:
            prev = trees[k - 2]
            nodes = list(range(len(prev)))
            ends = []
            for e in E:
                pi = e[3]
                if pi is None or len(pi) != 2 or None in pi:
                    errs.append(f'T{k}: edge without two parents in T{k - 1}')
                    continue
                if pi[0] == pi[1]:
                    errs.append(f'T{k}: parents are not distinct')
                ends.append(tuple(pi))
                A, B = varset(prev[pi[0]]), varset(prev[pi[1]])
                if len(A & B) != k - 1:
                    errs.append(f'T{k}: proximity fails (parents share {len(A & B)} variables)')
                if frozenset(e[2]) != A & B:
                    errs.append(f'T{k}: conditioning set != intersection of the parents')
                if {e[0], e[1]} != set(A ^ B):
                    errs.append(f'T{k}: conditioned pair != symmetric difference of the parents')
        errs += [f'T{k}: {x}' for x in _spanning(nodes, ends)]
        deg = collections.Counter(x for ab in ends for x in ab)
        if deg:
            if vtype == 'center' and len(nodes) > 2 and max(deg.values()) != len(nodes) - 1:
                errs.append(f'T{k}: not a star')
            if vtype == 'direct' and max(deg.values()) > 2:
                errs.append(f'T{k}: not a path')
        for e in E:
            if e[0] == e[1]:
                errs.append(f'T{k}: L == R')
            if len(set(e[2])) != k - 1:
                errs.append(f'T{k}: |D| = {len(set(e[2]))}, expected {k - 1}')
            if {e[0], e[1]} & set(e[2]):
                errs.append(f'T{k}: conditioned variable inside the conditioning set')
            p = frozenset({e[0], e[1]})
            if p in seen_pairs:
                errs.append(f'pair {sorted(p)} conditioned twice')
            seen_pairs.add(p)
    return errs


def max_spanning_weight(W):
    """Kruskal maximum spanning tree weight of the complete graph with symmetric weight matrix W."""
    d = len(W)
    edges = sorted(((W[i][j], i, j) for i in range(d) for j in range(i + 1, d)), reverse=True)
    parent = list(range(d))

    def find(x):
        while parent[x] != x:
            parent[x] = parent[parent[x]]
            x = parent[x]
        return x
    tot = 0.0
    for w, i, j in edges:
        ri, rj = find(i), find(j)
        if ri != rj:
            parent[ri] = rj
            tot += w
    return tot


def count_regular_vines(d):
    """Number of regular vines on d labelled variables: d!/2 * 2^((d-2)(d-3)/2)."""
    import math
    return math.factorial(d) // 2 * 2 ** ((d - 2) * (d - 3) // 2)


def selftest():
    # D-vine on 4 variables: path 0-1-2-3
    t1 = [(0, 1, (), None), (1, 2, (), None), (2, 3, (), None)]
    t2 = [(0, 2, (1,), (0, 1)), (1, 3, (2,), (1, 2))]
    t3 = [(0, 3, (1, 2), (0, 1))]
    assert check([t1, t2, t3], 4, 'direct', 3) == []
    assert check([t1, t2, t3], 4, 'regular', 3) == []
    assert any('star' in e for e in check([t1, t2, t3], 4, 'center', 3))
    bad2 = [(0, 2, (1,), (0, 1)), (0, 3, (2,), (1, 2))]
    assert any('symmetric difference' in e or 'conditioning set' in e for e in check([t1, bad2], 4, 'regular'))
    cyc = [(0, 1, (), None), (1, 2, (), None), (0, 2, (), None)]
    assert any('cycle' in e for e in check([cyc], 4, 'regular'))
    assert max_spanning_weight([[0, 3, 1], [3, 0, 2], [1, 2, 0]]) == 5
    assert count_regular_vines(4) == 24 and count_regular_vines(5) == 480
    return True
