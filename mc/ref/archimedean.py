"""Reference model for the Archimedean families, built only from the generator in the property text.

    C(u, v) = phi^-1(phi(u) + phi(v))
    h(u, v) = dC/dv      = phi'(v) / phi'(C)
    c(u, v) = d2C/du dv  = -phi''(C) phi'(u) phi'(v) / phi'(C)^3

phi' and phi'' are obtained by numerical differentiation of phi in 40-digit arithmetic (mpmath), so
no closed form of the library is re-typed here.  `selftest()` cross-checks the identities against
direct differentiation of C.
"""
import mpmath as mp

mp.mp.dps = 40


def _phi(family, th):
    th = mp.mpf(th)
    if family == 'clayton':
        return (lambda t: (mp.power(t, -th) - 1) / th), (lambda s: mp.power(1 + th * s, -1 / th))
    if family == 'gumbel':
        return (lambda t: mp.power(-mp.log(t), th)), (lambda s: mp.exp(-mp.power(s, 1 / th)))
    if family == 'frank':
        d = mp.expm1(-th)
        return (lambda t: -mp.log(mp.expm1(-th * t) / d)), \
               (lambda s: -mp.log1p(mp.exp(-s) * d) / th)
    raise ValueError(family)


class Ref:
    def __init__(self, family, theta):
        self.family = family
        self.theta = theta
        self.phi, self.inv = _phi(family, theta)

    def dphi(self, t, n=1):
        return mp.diff(self.phi, t, n)

    def C(self, u, v):
        u, v = mp.mpf(u), mp.mpf(v)
        if u <= 0 or v <= 0:
            return mp.mpf(0)
        if u >= 1:
            return v
        if v >= 1:
            return u
        return self.inv(self.phi(u) + self.phi(v))

    def h(self, u, v):
        """dC/dv for 0 < v < 1 (u may be 0 or 1: limits 0 and 1)."""
        u, v = mp.mpf(u), mp.mpf(v)
        if u <= 0:
            return mp.mpf(0)
        if u >= 1:
            return mp.mpf(1)
        c = self.C(u, v)
        if c <= 0:
            return mp.mpf(0)
        return self.dphi(v) / self.dphi(c)

    def c(self, u, v):
        u, v = mp.mpf(u), mp.mpf(v)
        cc = self.C(u, v)
        d1 = self.dphi(cc)
        return -self.dphi(cc, 2) * self.dphi(u) * self.dphi(v) / d1 ** 3

    def volume(self, u1, u2, v1, v2):
        return self.C(u2, v2) - self.C(u1, v2) - self.C(u2, v1) + self.C(u1, v1)

    def tau(self):
        th = mp.mpf(self.theta)
        if self.family == 'clayton':
            return th / (th + 2)
        if self.family == 'gumbel':
            return 1 - 1 / th
        return frank_tau(th)


def frank_tau(theta):
    """Kendall tau of the Frank copula via the Debye function, integrated from 0."""
    th = mp.mpf(theta)
    if th == 0:
        return mp.mpf(0)
    a = abs(th)
    d1 = mp.quad(lambda t: t / mp.expm1(t), [0, a]) / a
    tau = 1 - 4 / a * (1 - d1)
    return tau if th > 0 else -tau


def selftest():
    """The derivative identities agree with direct differentiation of C (independent of copulas)."""
    worst = 0
    for fam, ths in (('clayton', [0.5, 2, 8]), ('gumbel', [1.25, 2, 5]), ('frank', [-5, 0.1, 5.74, 18.2])):
        for th in ths:
            r = Ref(fam, th)
            for u in (0.1, 0.5, 0.93):
                for v in (0.07, 0.5, 0.9):
                    hd = mp.diff(lambda y: r.C(u, y), v)
                    cd = mp.diff(lambda x, y: r.C(x, y), (u, v), (1, 1))
                    e1 = abs(hd - r.h(u, v))
                    e2 = abs(cd - r.c(u, v)) / abs(cd)
                    worst = max(worst, e1, e2)
                    assert e1 < 1e-20 and e2 < 1e-15, (fam, th, u, v, e1, e2)
                    assert abs(r.phi(r.inv(mp.mpf('0.7'))) - mp.mpf('0.7')) < 1e-30
            # symmetric, grounded, uniform margins
            assert abs(r.C(0.3, 0.8) - r.C(0.8, 0.3)) < 1e-30 and r.C(0.3, 1) == mp.mpf(0.3)
    assert abs(frank_tau(5.736282707) - mp.mpf('0.5')) < 1e-8
    assert abs(frank_tau(-5.736282707) + mp.mpf('0.5')) < 1e-8
    return float(worst)
