"""Weighted Gaussian kernel density estimate from the definition (1-D)."""
import numpy as np
from scipy.special import ndtr


def bandwidth(data, bw_method=None, weights=None):
    x = np.asarray(data, float).ravel()
    n = len(x)
    w = np.full(n, 1.0 / n) if weights is None else np.asarray(weights, float) / np.sum(weights)
    neff = 1.0 / np.sum(w ** 2)
    if bw_method is None or bw_method == 'scott':
        factor = neff ** (-1.0 / 5)
    elif bw_method == 'silverman':
        factor = (neff * 3.0 / 4.0) ** (-1.0 / 5)
    else:
        factor = float(bw_method)
    mu = np.sum(w * x)
    var = np.sum(w * (x - mu) ** 2) / (1.0 - np.sum(w ** 2))     # unbiased weighted variance
    return factor * np.sqrt(var), w, x


def pdf(points, data, bw_method=None, weights=None):
    h, w, x = bandwidth(data, bw_method, weights)
    z = (np.asarray(points, float)[:, None] - x[None, :]) / h
    return (np.exp(-0.5 * z * z) / (h * np.sqrt(2 * np.pi))) @ w


def cdf(points, data, bw_method=None, weights=None):
    h, w, x = bandwidth(data, bw_method, weights)
    return ndtr((np.asarray(points, float)[:, None] - x[None, :]) / h) @ w


def selftest():
    from scipy.stats import gaussian_kde
    rs = np.random.RandomState(2)
    x = rs.gamma(2.0, size=37)
    w = rs.uniform(0.5, 2, size=37)
    pts = np.linspace(-1, 9, 31)
    for bw in (None, 'scott', 'silverman', 0.3, 1.0):
        for ww in (None, w):
            a = pdf(pts, x, bw, ww)
            b = gaussian_kde(x, bw_method=bw, weights=ww).evaluate(pts)
            assert np.allclose(a, b, rtol=1e-12, atol=0), (bw, np.max(np.abs(a - b)))
    assert abs(cdf(np.array([50.0]), x)[0] - 1) < 1e-12
    return True
