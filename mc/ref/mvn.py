"""Zero-mean multivariate normal: log-density by Cholesky; bivariate / trivariate CDF by nested 1-D quadrature."""
import numpy as np
from scipy.special import ndtr

from mc.quadrature import adaptive1d


def logpdf(Z, C):
    Z = np.atleast_2d(np.asarray(Z, float))
    d = C.shape[0]
    L = np.linalg.cholesky(C)
    y = np.linalg.solve(L, Z.T)
    q = np.sum(y * y, axis=0)
    return -0.5 * (d * np.log(2 * np.pi) + 2 * np.sum(np.log(np.diag(L))) + q)


def _phi(x):
    return np.exp(-0.5 * x * x) / np.sqrt(2 * np.pi)


def cdf2(a, b, rho):
    """P(Z1 <= a, Z2 <= b), corr rho, |rho| < 1."""
    if a == -np.inf or b == -np.inf:
        return 0.0
    s = np.sqrt(1 - rho * rho)
    lo = -9.0
    hi = min(a, 9.0)
    if hi <= lo:
        return 0.0
    if b == np.inf:
        return float(ndtr(a))
    val, est, n = adaptive1d(lambda x: _phi(x) * ndtr((b - rho * x) / s), lo, hi, rtol=1e-11, atol=1e-14, maxdepth=12)
    return float(val)


def cdf3(a, C):
    """P(Z <= a) for a 3-vector a and 3x3 correlation C (positive definite)."""
    a1, a2, a3 = (float(x) for x in a)
    r12, r13, r23 = C[0, 1], C[0, 2], C[1, 2]
    s2, s3 = np.sqrt(1 - r12 ** 2), np.sqrt(1 - r13 ** 2)
    rc = (r23 - r12 * r13) / (s2 * s3)
    rc = float(np.clip(rc, -0.999999, 0.999999))
    lo, hi = -9.0, min(a1, 9.0)
    if hi <= lo:
        return 0.0

    def f(x):
        return np.array([_phi(t) * cdf2((a2 - r12 * t) / s2, (a3 - r13 * t) / s3, rc) for t in np.atleast_1d(x)])
    val, est, n = adaptive1d(f, lo, hi, rtol=1e-7, atol=1e-10, maxdepth=6)
    return float(val)


def selftest():
    from scipy.stats import multivariate_normal
    C = np.array([[1, 0.6, -0.3], [0.6, 1, 0.2], [-0.3, 0.2, 1.0]])
    Z = np.array([[0.1, -0.4, 1.2], [2.0, 2.0, -1.0]])
    assert np.allclose(logpdf(Z, C), multivariate_normal(cov=C).logpdf(Z), rtol=1e-12)
    assert abs(cdf2(0.0, 0.0, 0.5) - (0.25 + np.arcsin(0.5) / (2 * np.pi))) < 1e-11
    assert abs(cdf2(0.3, -0.7, -0.8) - multivariate_normal(cov=[[1, -0.8], [-0.8, 1]]).cdf([0.3, -0.7])) < 1e-8
    # orthant probability of the trivariate normal (closed form)
    orth = 1 / 8 + (np.arcsin(0.6) + np.arcsin(-0.3) + np.arcsin(0.2)) / (4 * np.pi)
    assert abs(cdf3([0, 0, 0], C) - orth) < 1e-7, cdf3([0, 0, 0], C) - orth
    return True
