"""Kendall tau-b from the definition (O(n^2)), and the tau <-> theta calibrations of the three families."""
import math

import numpy as np


def tau_b(x, y):
    """tau-b = (P - Q) / sqrt((n0 - n1)(n0 - n2)) by counting all pairs (row blocks keep memory small)."""
    x = np.asarray(x, float)
    y = np.asarray(y, float)
    n = len(x)
    if n < 2:
        return float('nan')
    s = t1 = t2 = 0
    for a in range(0, n, 512):
        sx = np.sign(x[a:a + 512, None] - x[None, :]).astype(np.int8)
        sy = np.sign(y[a:a + 512, None] - y[None, :]).astype(np.int8)
        s += int(np.sum(sx.astype(np.int32) * sy))      # every unordered pair counted twice
        t1 += int(np.sum(sx == 0))
        t2 += int(np.sum(sy == 0))
    s //= 2
    n0 = n * (n - 1) // 2
    n1 = (t1 - n) // 2                              # pairs tied in x (diagonal removed)
    n2 = (t2 - n) // 2
    den = (n0 - n1) * (n0 - n2)
    if den == 0:
        return float('nan')
    return s / math.sqrt(den)


def theta_from_tau(family, tau):
    """Closed-form calibrations (Clayton, Gumbel). Returns None when no admissible theta exists."""
    if family == 'clayton':
        if tau < 0:
            return None
        if tau == 1:
            return float('inf')
        return 2 * tau / (1 - tau)
    if family == 'gumbel':
        if tau < 0 or tau == 1:
            return None
        return 1 / (1 - tau)
    raise ValueError(family)


def frank_tau(theta):
    from mc.ref.archimedean import frank_tau as ft
    return float(ft(theta))


def selftest():
    from scipy.stats import kendalltau
    rs = np.random.RandomState(5)
    for n in (2, 3, 7, 40):
        for _ in range(20):
            x = rs.randint(0, 4, n).astype(float)
            y = rs.randint(0, 5, n).astype(float)
            a, b = tau_b(x, y), kendalltau(x, y)[0]
            assert (np.isnan(a) and np.isnan(b)) or abs(a - b) < 1e-12, (x, y, a, b)
    assert tau_b([1, 2, 3], [1, 2, 3]) == 1 and tau_b([1, 2, 3], [3, 2, 1]) == -1
    assert abs(frank_tau(5.736282707) - 0.5) < 1e-8
    return True


def frank_tau_fast(theta):
    """float64 version of frank_tau (scipy quad from 0 with the removable singularity filled in)."""
    from scipy.integrate import quad
    a = abs(float(theta))
    if a == 0:
        return 0.0
    if a > 600:
        d1 = (math.pi ** 2 / 6) / a
    else:
        d1 = quad(lambda t: t / math.expm1(t) if t > 0 else 1.0, 0, a, epsabs=1e-13, epsrel=1e-13)[0] / a
    tau = 1 - 4 / a * (1 - d1)
    return tau if theta > 0 else -tau
