"""Kendall tau-b from the definition (O(n^2)), and the tau <-> theta calibrations of the three families."""
import math

import numpy as np


def tau_b(x, y):
    x = np.asarray(x, float)
    y = np.asarray(y, float)
    n = len(x)
    if n < 2:
        return float('nan')
    sx = np.sign(x[:, None] - x[None, :]).astype(np.int8)
    sy = np.sign(y[:, None] - y[None, :]).astype(np.int8)
    iu = np.triu_indices(n, 1)
    a, b = sx[iu].astype(np.int64), sy[iu].astype(np.int64)
    s = int(np.sum(a * b))                     # concordant - discordant
    n0 = n * (n - 1) // 2
    n1 = int(np.sum(a == 0))                   # pairs tied in x
    n2 = int(np.sum(b == 0))                   # pairs tied in y
    den = (n0 - n1) * (n0 - n2)
    if den == 0:
        return float('nan')
    return s / math.sqrt(den)


def theta_from_tau(family, tau):
    """Closed-form calibrations (Clayton, Gumbel). Returns None when no admissible theta exists."""
    if family == 'clayton':
        if tau < 0:
            return None
        if tau == 1:
            return float('inf')
        return 2 * tau / (1 - tau)
    if family == 'gumbel':
        if tau < 0 or tau == 1:
            return None
        return 1 / (1 - tau)
    raise ValueError(family)


def frank_tau(theta):
    from mc.ref.archimedean import frank_tau as ft
    return float(ft(theta))


def selftest():
    from scipy.stats import kendalltau
    rs = np.random.RandomState(5)
    for n in (2, 3, 7, 40):
        for _ in range(20):
            x = rs.randint(0, 4, n).astype(float)
            y = rs.randint(0, 5, n).astype(float)
            a, b = tau_b(x, y), kendalltau(x, y)[0]
            assert (np.isnan(a) and np.isnan(b)) or abs(a - b) < 1e-12, (x, y, a, b)
    assert tau_b([1, 2, 3], [1, 2, 3]) == 1 and tau_b([1, 2, 3], [3, 2, 1]) == -1
    assert abs(frank_tau(5.736282707) - 0.5) < 1e-8
    return True


def frank_tau_fast(theta):
    """float64 version of frank_tau (scipy quad from 0 with the removable singularity filled in)."""
    from scipy.integrate import quad
    a = abs(float(theta))
    if a == 0:
        return 0.0
    if a > 600:
        d1 = (math.pi ** 2 / 6) / a
    else:
        d1 = quad(lambda t: t / math.expm1(t) if t > 0 else 1.0, 0, a, epsabs=1e-13, epsrel=1e-13)[0] / a
    tau = 1 - 4 / a * (1 - d1)
    return tau if theta > 0 else -tau
