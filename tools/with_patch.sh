#!/bin/bash
# usage: with_patch.sh <patch.diff> <command...>
# Copies /repo's working tree (without .git) to a scratch dir, applies the patch there, runs the command
# with COPULAS_REPO pointing at the copy, removes the copy. /repo itself is never touched.
set -u
PATCH="$(readlink -f "$1")"; shift
D="$(mktemp -d /var/tmp/copulas-mut-XXXXXX)"
trap 'rm -rf "$D"' EXIT
rsync -a --exclude .git --exclude '__pycache__' --exclude 'docs' --exclude 'tutorials' /repo/ "$D/"
( cd "$D" && patch -p1 -s < "$PATCH" ) || { echo "patch failed"; exit 3; }
COPULAS_REPO="$D" MUT_DIR="$D" VERIF_EVIDENCE_DIR="$D/.evidence" "$@"
