#!/bin/bash
# usage: mut.sh <relative file> <python-replace-old> <python-replace-new> <check ids...>
# Quick ad-hoc mutation: copy /repo to scratch, replace exactly one occurrence of OLD by NEW in FILE, run checks.
F="$1"; OLD="$2"; NEW="$3"; shift 3
D="$(mktemp -d /var/tmp/copulas-mut-XXXXXX)"
trap 'rm -rf "$D"' EXIT
rsync -a --exclude .git --exclude '__pycache__' --exclude docs --exclude tutorials /repo/ "$D/"
/venv/bin/python - "$D/$F" "$OLD" "$NEW" <<'PY' || exit 3
import sys
p,old,new=sys.argv[1:4]
s=open(p).read()
if s.count(old)!=1:
    print('MUT: pattern occurs',s.count(old),'times'); sys.exit(1)
open(p,'w').write(s.replace(old,new))
PY
for c in "$@"; do
  COPULAS_REPO="$D" VERIF_EVIDENCE_DIR="$D/.evidence" /verif/check $c 2>&1 | cut -c1-330 | head -${MUT_LINES:-4}
done
