#!/venv/bin/python
"""Regenerate /verif/MANIFEST.json from the check modules that exist (and validate it)."""
import importlib
import json
import os
import sys

import jsonschema

VERIF = os.path.dirname(os.path.dirname(os.path.abspath(__file__)))
sys.path.insert(0, VERIF)
os.environ.setdefault('COPULAS_REPO', '/repo')

ENGINES = [
    {'name': 'E1-product-explorer', 'path': 'mc/engine.py',
     'kind_free_text': 'bounded-exhaustive enumeration of a product alphabet of inputs/configurations, '
                       'each case executed on the real code in lock-step with a reference model; '
                       'sharded over 16 forked workers',
     'serves_properties': []},
    {'name': 'E2-sequence-explorer', 'path': 'mc/seq.py',
     'kind_free_text': 'explicit-state breadth-first search over operation histories on fresh real objects '
                       '(state = canonical fingerprint of the whole object, rebuilt by replaying the history), '
                       'invariant / differential oracle after every transition',
     'serves_properties': []},
    {'name': 'E3-environment-explorer', 'path': 'mc/seams.py',
     'kind_free_text': 'the same search where the nondeterministic choice is the environment answer: '
                       'recorded or scripted random draws, np.empty contents (poison alphabet), tau matrices '
                       'handed to the vine tree builder',
     'serves_properties': []},
]


def main():
    from mc import engine
    engine.bootstrap()
    checks, na = [], []
    for i in range(1, 21):
        pid = f'C{i:02d}'
        try:
            mod = importlib.import_module(f'mc.checks.c{i:02d}')
        except ModuleNotFoundError:
            na.append({'property_id': pid,
                       'reason': 'check not built yet in this session (design in DESIGN.md section 5); '
                                 'not claimed until its module exists'})
            continue
        if getattr(mod, 'NOT_APPLICABLE', None):
            na.append({'property_id': pid, 'reason': mod.NOT_APPLICABLE})
            continue
        eng = getattr(mod, 'ENGINE', 'E1-product-explorer')
        for e in ENGINES:
            if e['name'] == eng or e['name'] in getattr(mod, 'ENGINES', ()):
                e['serves_properties'].append(pid)
        checks.append({
            'property_id': pid,
            'quick_cmd': f'./check {pid} --tier quick',
            'thorough_cmd': f'./check {pid} --tier thorough',
            'evidence_file': f'/verif/evidence/{pid}.json',
            'replay_cmd_template': f'./check {pid} --replay {{path}}',
            'engine': eng,
            'level_claimed': {
                'category': mod.LEVEL,
                'text': mod.LEVEL_TEXT,
                'design_ref': f'DESIGN.md section 5, {pid}',
            },
            'level_note': mod.LEVEL_NOTE,
            'technique': mod.TECHNIQUE,
        })
    man = {
        'version': 1,
        'setup_cmd': '/venv/bin/pip install -q --no-index --find-links /opt/veriftools/wheels '
                     '--target /verif/.deps mpmath networkx && ./check --selftest',
        'hooks': {
            'guard': 'COPULAS_VERIF',
            'enable': 'no source hooks are needed: every seam (RNG record/script, np.empty poison, tau-matrix '
                      'injection) is installed from outside by replacing module-level names of copulas modules '
                      'inside the checker process; the guard name is reserved and unused',
            'baseline_off_cmd': 'cd /repo && /venv/bin/python -m pytest -q -p no:cacheprovider --timeout=900 '
                                '--continue-on-collection-errors',
            'source_commits': [],
            'add_only': True,
        },
        'engines': ENGINES,
        'checks': checks,
        'not_applicable': na,
        'notes': 'All checks decide by exhaustive enumeration of a stated finite alphabet/bound on the real code '
                 '(see DESIGN.md); known_findings.json lists recorded findings and fix: commits.',
    }
    schema = json.load(open('/root/.vp/MANIFEST.schema.json'))
    jsonschema.validate(man, schema)
    with open(os.path.join(VERIF, 'MANIFEST.json'), 'w') as f:
        json.dump(man, f, indent=1)
    print(f'MANIFEST.json: {len(checks)} checks claimed, {len(na)} not applicable / not yet built')


if __name__ == '__main__':
    main()
