#!/bin/bash
# usage: confirm_seed.sh <seed dir containing patch.diff demo.py meta.json>
# Confirms in a scratch copy of /repo: patch applies, baseline (257 stable tests) still passes,
# demo.py passes on /repo and fails on the patched copy. Writes <seed dir>/confirm.json.
S="$(readlink -f "$1")"
D="$(mktemp -d /var/tmp/copulas-seed-XXXXXX)"
trap 'rm -rf "$D"' EXIT
rsync -a --exclude .git --exclude '__pycache__' --exclude docs --exclude tutorials /repo/ "$D/"
( cd "$D" && patch -p1 -s < "$S/patch.diff" ) || { echo "{\"applies\": false}" > "$S/confirm.json"; echo "PATCH FAILED $S"; exit 3; }
COPULAS_REPO=/repo /venv/bin/python "$S/demo.py" > "$D/.demo_clean.log" 2>&1; RC_CLEAN=$?
COPULAS_REPO="$D" /venv/bin/python "$S/demo.py" > "$D/.demo_mut.log" 2>&1; RC_MUT=$?
/verif/tools/baseline_check.py "$D" > "$D/.base.log" 2>&1; RC_BASE=$?
/venv/bin/python - "$S" "$RC_CLEAN" "$RC_MUT" "$RC_BASE" "$D" <<'PY'
import json,sys,subprocess
s,rc_clean,rc_mut,rc_base,d=sys.argv[1:6]
head=subprocess.run(['git','-C','/repo','rev-parse','--short','HEAD'],capture_output=True,text=True).stdout.strip()
out={'applies':True,'repo_head':head,'demo_exit_on_unmodified':int(rc_clean),'demo_exit_on_modified':int(rc_mut),
     'baseline_257_pass_with_change':int(rc_base)==0,
     'baseline_summary':open(d+'/.base.log').read().strip().splitlines()[-1:],
     'demo_output_modified':open(d+'/.demo_mut.log').read()[-600:],
     'confirmed': int(rc_clean)==0 and int(rc_mut)==1 and int(rc_base)==0}
json.dump(out,open(s+'/confirm.json','w'),indent=1)
print(s, 'CONFIRMED' if out['confirmed'] else 'NOT CONFIRMED', out['demo_exit_on_unmodified'], out['demo_exit_on_modified'], out['baseline_summary'])
PY
