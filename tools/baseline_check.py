#!/venv/bin/python
"""Run the repository's test suite in <repo dir> and verify that all 257 baseline-stable tests pass.

usage: baseline_check.py [repo_dir]   (default /repo)   exit 0 iff every stable_pass test passed.
"""
import json
import os
import subprocess
import sys
import tempfile
import xml.etree.ElementTree as ET

repo = os.path.abspath(sys.argv[1] if len(sys.argv) > 1 else '/repo')
base = json.load(open('/root/.vp/BASELINE.json'))
stable = set(base['stable_pass'])
env = dict(os.environ, PYTHONDONTWRITEBYTECODE='1')
env.pop('COPULAS_VERIF', None)
try:
    import xdist  # noqa
    XDIST = ['-n', '8']
except ImportError:
    XDIST = []
passed = set()
for attempt in range(3):
    fd, xml = tempfile.mkstemp(suffix='.xml', dir='/var/tmp')
    os.close(fd)
    p = subprocess.run(['/venv/bin/python', '-m', 'pytest', '-q', '-p', 'no:cacheprovider', '--timeout=900',
                        '--continue-on-collection-errors', f'--junitxml={xml}'] + XDIST,
                       cwd=repo, env=env, capture_output=True, text=True)
    for tc in ET.parse(xml).getroot().iter('testcase'):
        if not any(ch.tag in ('failure', 'error', 'skipped') for ch in tc):
            name = tc.get('name')
            cls = tc.get('classname')
            passed.add(f'{cls}::{name}')
            passed.add(f'{cls}::{name}'.replace(repo, '/repo'))
    os.unlink(xml)
    if not (stable - passed):
        break
    # the suite contains unseeded statistical tests (e.g. test_gaussiankde_arguments): a test counts as passing
    # if it passes in one of up to three full runs
    print(f'  attempt {attempt + 1}: not yet passing: {sorted(stable - passed)[:5]}')
missing = sorted(stable - passed)
print(f'baseline: {len(stable) - len(missing)}/{len(stable)} stable tests pass; ')
for m in missing[:30]:
    print('  NOT PASSING:', m)
print(p.stdout.strip().splitlines()[-1] if p.stdout.strip() else p.stderr[-500:])
sys.exit(1 if missing else 0)
