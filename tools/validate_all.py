#!/venv/bin/python
"""Validate MANIFEST.json and every evidence file against the schemas in /root/.vp."""
import glob, json, sys
import jsonschema
ok = True
m = json.load(open('/verif/MANIFEST.json'))
jsonschema.validate(m, json.load(open('/root/.vp/MANIFEST.schema.json')))
sch = json.load(open('/root/.vp/EVIDENCE.schema.json'))
for c in m['checks']:
    try:
        e = json.load(open(c['evidence_file']))
        jsonschema.validate(e, sch)
        assert e['level'] == c['level_claimed']['category'], (e['level'], c['level_claimed']['category'])
        print(c['property_id'], e['tier'], e['level'], 'states', e['coverage'].get('states'), 'transitions', e['coverage'].get('transitions'),
              'distinct_nontrivial', e['coverage'].get('distinct_nontrivial'), 'violations', e.get('violations'))
    except Exception as ex:
        ok = False
        print(c['property_id'], 'INVALID', ex)
sys.exit(0 if ok else 1)
