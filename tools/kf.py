#!/venv/bin/python
"""Small maintenance helper for known_findings.json (used by hand, never by a check).
usage: kf.py fixed <property> <commit> <signature> <what failed>
       kf.py open  <property> <signature-pattern> <what fails> [example]
"""
import json, sys
p = '/verif/known_findings.json'
d = json.load(open(p))
kind = sys.argv[1]
if kind == 'fixed':
    _, _, prop, commit, sig, what = sys.argv
    d['findings'].append({'property': prop, 'status': 'fixed', 'commit': commit, 'signature': sig,
                          'what_fails': what, 'record': f'fixed: property={prop} {commit} {what}'})
elif kind == 'open':
    prop, sig, what = sys.argv[2:5]
    e = {'property': prop, 'status': 'open', 'signature': sig, 'what_fails': what}
    if len(sys.argv) > 5:
        e['example'] = sys.argv[5]
    d['findings'].append(e)
json.dump(d, open(p, 'w'), indent=1)
print(len(d['findings']), 'entries')
