#!/venv/bin/python
"""Run the quick checks against every seeded change under /verif/seeded/ (each applied to a scratch copy of /repo,
never to /repo itself) and record which checks report a violation.

usage: seed_audit.py [--all-checks] [--out=path] [seed ids...]     writes /verif/seeded/AUDIT.json (or --out, for shards)
"""
import glob
import json
import os
import re
import subprocess
import sys

VERIF = '/verif'
args = [a for a in sys.argv[1:] if not a.startswith('--')]
all_checks = '--all-checks' in sys.argv
seeds = sorted(glob.glob(f'{VERIF}/seeded/C*')) if not args else [f'{VERIF}/seeded/{a}' for a in args]
audit_path = next((a.split('=', 1)[1] for a in sys.argv[1:] if a.startswith('--out=')), f'{VERIF}/seeded/AUDIT.json')
audit = json.load(open(audit_path)) if os.path.exists(audit_path) else {}
for sd in seeds:
    sid = os.path.basename(sd)
    meta = json.load(open(f'{sd}/meta.json'))
    target = meta['property']
    checks = [f'C{i:02d}' for i in range(1, 21)] if all_checks else [target] + meta.get('also_run', [])
    res = audit.get(sid, {}) if all_checks is False else {}
    for c in checks:
        env = dict(os.environ, VERIF_CASE_TIMEOUT='60')
        p = subprocess.run([f'{VERIF}/tools/with_patch.sh', f'{sd}/patch.diff', f'{VERIF}/check', c],
                           capture_output=True, text=True, env=env)
        sigs = sorted(set(re.findall(r'sig=(\S+)', '\n'.join(l for l in p.stdout.splitlines() if l.startswith('VIOLATION')))))
        res[c] = {'exit': p.returncode, 'violation_signatures': sigs[:6]}
        print(sid, c, 'exit', p.returncode, sigs[:3], flush=True)
    audit[sid] = res
    json.dump(audit, open(audit_path, 'w'), indent=1, sort_keys=True)
