#!/venv/bin/python
"""Merge confirm.json + AUDIT.json into each seeded/<id>/meta.json and write /verif/SEEDED.md."""
import glob
import json
import os

V = '/verif'
audit = json.load(open(f'{V}/seeded/AUDIT.json'))
rows = []
for sd in sorted(glob.glob(f'{V}/seeded/C*')):
    sid = os.path.basename(sd)
    meta = json.load(open(f'{sd}/meta.json'))
    conf = json.load(open(f'{sd}/confirm.json')) if os.path.exists(f'{sd}/confirm.json') else {}
    det = audit.get(sid, {})
    meta['breaks_property'] = meta.get('property')
    meta['needs_to_manifest'] = meta.get('what_it_needs_to_manifest') or meta.get('needs_to_manifest')
    meta['confirmed_by_builder'] = {
        'repo_head': conf.get('repo_head'), 'patch_applies': conf.get('applies'),
        'baseline_257_pass_with_change': conf.get('baseline_257_pass_with_change'),
        'baseline_summary': conf.get('baseline_summary'),
        'demo_exit_on_unmodified_tree': conf.get('demo_exit_on_unmodified'),
        'demo_exit_on_modified_tree': conf.get('demo_exit_on_modified'),
        'what_was_run': ['tools/confirm_seed.sh seeded/' + sid + '  (scratch copy of /repo, patch -p1, baseline_check.py, demo.py on '
                         'both trees)', 'tools/seed_audit.py ' + sid + '  (quick check of the property on the patched scratch copy)'],
    }
    meta['detected_by'] = {c: v for c, v in det.items()}
    json.dump(meta, open(f'{sd}/meta.json', 'w'), indent=1)
    caught = [c for c, v in det.items() if v['exit'] == 1]
    sigs = '; '.join(det.get(meta['property'], {}).get('violation_signatures', [])[:2])
    summ = (meta.get('summary') or '').replace('\n', ' ').replace('|', '/')
    rows.append((sid, meta['property'], summ[:150] + ('...' if len(summ) > 150 else ''), ', '.join(caught) or 'MISSED',
                 sigs[:140], 'yes' if conf.get('confirmed') else 'NO'))
with open(f'{V}/SEEDED.md', 'w') as f:
    f.write('# Seeded property-breaking changes and the checks that report them\n\n'
            'Each change was produced by an independent sub-agent that saw only the property text and a scratch worktree, and was '
            'confirmed by `tools/confirm_seed.sh` (patch applies to the current /repo HEAD, the 257 baseline tests still pass with it, '
            '`demo.py` passes without and fails with the change). "caught by" = quick checks that exit 1 with a VIOLATION line on a '
            'scratch copy of /repo with the patch applied (`tools/seed_audit.py`).\n\n'
            '| seed | property | change | caught by | signatures (target check) | confirmed |\n|---|---|---|---|---|---|\n')
    for r in rows:
        f.write('| ' + ' | '.join(r) + ' |\n')
    n = sum(1 for r in rows if r[3] != 'MISSED')
    f.write(f'\n{n} of {len(rows)} seeded changes are reported by the quick check of the property they break.\n')
print(open(f'{V}/SEEDED.md').read()[-300:])
