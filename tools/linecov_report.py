#!/venv/bin/python
"""Diagnostic (not a check): merge the per-case line sets written under VERIF_LINECOV=<dir> and list the library lines
no check executed. usage: linecov_report.py <dir> [repo]"""
import glob, os, sys
d = sys.argv[1]
repo = sys.argv[2] if len(sys.argv) > 2 else '/repo'
root = os.path.join(repo, 'copulas')
hit = {}
by = {}
for f in glob.glob(os.path.join(d, '*.txt')):
    prop = os.path.basename(f).split('-')[0]
    for line in open(f):
        fn, ln = line.rsplit(':', 1)
        hit.setdefault(fn, set()).add(int(ln))
        by.setdefault((fn, int(ln)), set()).add(prop)


def code_lines(code, out):
    for _, _, ln in code.co_lines():
        if ln is not None:
            out.add(ln)
    for c in code.co_consts:
        if hasattr(c, 'co_lines'):
            code_lines(c, out)


tot = miss = 0
for dirpath, _, files in os.walk(root):
    for fn in sorted(files):
        if not fn.endswith('.py'):
            continue
        p = os.path.join(dirpath, fn)
        rel = os.path.relpath(p, root)
        src = open(p).read()
        code = compile(src, p, 'exec')
        body = set()
        for c in code.co_consts:          # function / class bodies only (module-level lines run at import, in the parent)
            if hasattr(c, 'co_lines'):
                code_lines(c, body)
        # drop def / class header lines and docstrings: keep lines that belong to function bodies
        lines = src.splitlines()
        body = {ln for ln in body if not lines[ln - 1].lstrip().startswith(('def ', 'class ', '@', '"""', "'''"))}
        h = hit.get(rel, set())
        m = sorted(body - h)
        tot += len(body)
        miss += len(m)
        if m:
            print(f'== {rel}: {len(m)} of {len(body)} body lines never executed')
            for ln in m:
                print(f'   {ln:4d}: {lines[ln - 1].rstrip()[:110]}')
print(f'TOTAL body lines {tot}, never executed {miss}')
