import warnings, time
warnings.simplefilter('ignore')
import patchfrank
import numpy as np, mpmath as mp
from copulas.bivariate import Frank, Clayton, Gumbel
mp.mp.dps = 40
def gen(fam, th):
    th = mp.mpf(th)
    if fam=='clayton': return (lambda t: (t**(-th)-1)/th), (lambda s: (1+th*s)**(-1/th))
    if fam=='gumbel': return (lambda t: (-mp.log(t))**th), (lambda s: mp.exp(-s**(1/th)))
    if fam=='frank': return (lambda t: -mp.log(mp.expm1(-th*t)/mp.expm1(-th))), (lambda s: -mp.log1p(mp.exp(-s)*mp.expm1(-th))/th)
def Cref(fam, th):
    phi, inv = gen(fam, th)
    return lambda u,v: inv(phi(u)+phi(v))
grid = [1e-4, 1e-3, 0.01, 0.1, 0.3, 0.5, 0.7, 0.9, 0.99, 0.999, 1-1e-4]
thetas = {'clayton':[0.05,0.5,1,2,4,8], 'gumbel':[1.01,1.5,2,3,5], 'frank':[-18.2,-5,-1,-0.1,0.01,0.1,1,5,18.2]}
cls = {'clayton':Clayton,'gumbel':Gumbel,'frank':Frank}
for fam in thetas:
    for th in thetas[fam]:
        m = cls[fam](); m.theta = th; m.tau=0.5
        C = Cref(fam, th)
        X = np.array([[u,v] for u in grid for v in grid])
        t=time.time()
        ref = np.array([float(C(mp.mpf(u),mp.mpf(v))) for u,v in X])
        h_ref = np.array([float(mp.diff(lambda vv: C(mp.mpf(u),vv), mp.mpf(v))) for u,v in X])
        c_ref = np.array([float(mp.diff(lambda uu,vv: C(uu,vv), (mp.mpf(u),mp.mpf(v)), (1,1))) for u,v in X])
        tr=time.time()-t
        cdf = m.cdf(X); h = m.partial_derivative(X); c = m.pdf(X)
        e1 = np.max(np.abs(cdf-ref)); e2=np.max(np.abs(h-h_ref)); e3=np.max(np.abs(c-c_ref)/np.maximum(1,np.abs(c_ref)))
        print(f'{fam:8s} th={th:6} cdf_err={e1:.2e} h_err={e2:.2e} pdf_relerr={e3:.2e} reftime={tr:.1f}s')
