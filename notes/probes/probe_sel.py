import warnings, time, sys
warnings.simplefilter('ignore')
import patchfrank
import numpy as np
from copulas.bivariate import select_copula
from scipy.optimize import brentq
from scipy import integrate
def frank_theta(tau):
    def t(th):
        D = integrate.quad(lambda x: x/np.expm1(x), 0, th)[0]/th
        return 1 - 4/th*(1-D) - tau
    return brentq(t, 1e-6, 200)
def samp(fam, tau, n, rng):
    v = rng.uniform(size=n); y = rng.uniform(size=n)
    if fam=='clayton':
        th = 2*tau/(1-tau)
        u = ((y**(-th/(1+th)) - 1)*v**(-th) + 1)**(-1/th)
    elif fam=='frank':
        th = frank_theta(tau)
        g1=np.expm1(-th); gv=np.expm1(-th*v)
        a = y*g1/(1+gv*(1-y)); u = -np.log1p(a)/th
    elif fam=='gumbel':
        th = 1/(1-tau)
        # Marshall-Olkin: S ~ positive stable(1/th)
        al = 1/th
        Theta = rng.uniform(0, np.pi, n); W = rng.exponential(size=n)
        S = (np.sin(al*Theta)/np.sin(Theta)**(1/al)) * (np.sin((1-al)*Theta)/W)**((1-al)/al)
        E = rng.exponential(size=(n,2))
        uv = np.exp(-(E/S[:,None])**al)
        return uv
    return np.column_stack([u,v])
K=int(sys.argv[1]); n=int(sys.argv[2])
for fam in ('clayton','gumbel','frank'):
    for tau in (0.3,0.4,0.5,0.6,0.7):
        hits=0; names={}
        for s in range(K):
            rng=np.random.RandomState(1000*s+7)
            X=samp(fam,tau,n,rng)
            c=select_copula(X); nm=type(c).__name__.lower(); names[nm]=names.get(nm,0)+1
            hits += nm==fam
        print(fam,tau,n,'recovered',hits,'/',K,names)
