import warnings, itertools, collections, sys
warnings.simplefilter('ignore')
sys.path.insert(0,'/verif/notes/probes')
import patchfrank
import numpy as np, pandas as pd
from scipy.stats import norm, rankdata
from copulas.multivariate import VineCopula
from copulas.bivariate import Bivariate, select_copula
def h(name, theta, a, b):
    c=Bivariate(copula_type=name); c.theta=theta
    out=c.partial_derivative(np.column_stack([a,b]))
    out=np.array(out,dtype=float); out[out==0]=np.finfo(np.float32).eps; out[out==1]=1-np.finfo(np.float32).eps
    return out
def pdf(name,theta,a,b):
    c=Bivariate(copula_type=name); c.theta=theta
    return c.probability_density(np.column_stack([a,b]))
def flow(v, U0):
    """reference: F[(var, frozenset(cond))] -> vector; returns per-edge diagnostics"""
    F={(j,frozenset()):U0[:,j] for j in range(U0.shape[1])}
    diags=[]
    for k,t in enumerate(v.trees, start=1):
        for e in t.edges:
            D=frozenset(e.D); L,R=e.L,e.R
            if (L,D) not in F or (R,D) not in F:
                diags.append((k,L,R,sorted(D),'inputs-unavailable')); continue
            a,b=F[(L,D)],F[(R,D)]
            sel=select_copula(np.column_stack([a,b]))
            fam_ok = sel.copula_type==e.name and abs(sel.theta-e.theta)<=1e-9*max(1,abs(e.theta))
            hl=h(e.name,e.theta,a,b); hr=h(e.name,e.theta,b,a)
            F[(L,D|{R})]=hl; F[(R,D|{L})]=hr
            u_ok = e.U is not None and np.allclose(e.U[0],hl,atol=1e-9) and np.allclose(e.U[1],hr,atol=1e-9)
            u_swapped = e.U is not None and np.allclose(e.U[0],hr,atol=1e-9) and np.allclose(e.U[1],hl,atol=1e-9)
            diags.append((k,L,R,sorted(D),'ok' if (fam_ok and u_ok) else ('U-swapped' if u_swapped and fam_ok else ('fam' if not fam_ok else 'U-other'))))
    return diags
def ref_lik(v, urow):
    F={(j,frozenset()):np.array([urow[j]]) for j in range(len(urow))}; tot=0.0
    for t in v.trees:
        for e in t.edges:
            D=frozenset(e.D); a,b=F[(e.L,D)],F[(e.R,D)]
            tot+=np.log(pdf(e.name,e.theta,a,b)[0])
            c=Bivariate(copula_type=e.name); c.theta=e.theta
            F[(e.L,D|{e.R})]=np.array(c.partial_derivative(np.column_stack([a,b])),dtype=float)
            F[(e.R,D|{e.L})]=np.array(c.partial_derivative(np.column_stack([b,a])),dtype=float)
    return tot
def lattice_table(n,d,R,a=76):
    i=np.arange(n)[:,None]; gen=np.array([pow(a,j,n) for j in range(d)])[None,:]
    P=((i*gen)%n+0.5)/n; Z=norm.ppf(P)@np.linalg.cholesky(R).T
    return pd.DataFrame(Z,columns=[f'c{j}' for j in range(d)])
stats=collections.Counter(); ex={}
for d in (3,4,5):
    pairs=list(itertools.combinations(range(d),2))
    rng=np.random.RandomState(d)
    for trial in range(12):
        # designed correlation: random ordering of pair strengths
        perm=rng.permutation(len(pairs)); R=np.eye(d)
        for r,(i,j) in zip(perm,pairs): R[i,j]=R[j,i]=0.15+0.5*r/len(pairs)
        w,V=np.linalg.eigh(R); R=(V*np.clip(w,0.05,None))@V.T; s=np.sqrt(np.diag(R)); R=R/s[:,None]/s[None,:]
        df=lattice_table(151,d,R)
        for vt in ('center','direct','regular'):
            v=VineCopula(vt); v.fit(df,truncated=d)
            for dg in flow(v, v.u_matrix):
                stats[(d,vt,dg[0],dg[4])]+=1
                if dg[4]!='ok': ex.setdefault((d,vt,dg[0],dg[4]),(trial,dg,[ (e.L,e.R,sorted(e.D)) for t in v.trees for e in t.edges]))
            u=np.linspace(0.2,0.8,d)
            try:
                rl=ref_lik(v,u); ll=v.get_likelihood(u[None,:])
                stats[(d,vt,'lik','ok' if abs(rl-ll)<=1e-9*max(1,abs(rl)) else 'MISMATCH')]+=1
                if not abs(rl-ll)<=1e-9*max(1,abs(rl)): ex.setdefault((d,vt,'lik'),(trial,rl,ll,[ (e.L,e.R,sorted(e.D)) for t in v.trees for e in t.edges]))
            except Exception as e:
                stats[(d,vt,'lik','EXC '+type(e).__name__)]+=1
for k in sorted(stats, key=str): print(k, stats[k])
for k,vv in ex.items(): print('EX',k,vv)
