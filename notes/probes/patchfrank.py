import numpy as np, scipy.integrate as integrate
from copulas.bivariate import frank as F
from copulas.utils import EPSILON
def _tau_to_theta(self, alpha):
    alpha = float(np.ravel(alpha)[0])
    def debye(t):
        return t / (np.exp(t) - 1)
    debye_value = integrate.quad(debye, EPSILON, alpha)[0] / alpha
    return 4 * (debye_value - 1) / alpha + 1 - self.tau
F.Frank._tau_to_theta = _tau_to_theta

from copulas.bivariate import base as B
from scipy.optimize import brentq
def percent_point(self, y, V):
    self.check_fit()
    result = []
    for _y, _v in zip(y, V):
        def f(u):
            return self.partial_derivative_scalar(u, _v)[0] - _y
        minimum = brentq(f, EPSILON, 1.0)
        if isinstance(minimum, np.ndarray):
            minimum = minimum[0]
        result.append(minimum)
    return np.array(result)
B.Bivariate.percent_point = percent_point

from copulas.multivariate import vine as V
_orig_train = V.VineCopula.train_vine
def train_vine(self, tree_type):
    self.tau_mat = np.array(self.tau_mat)
    return _orig_train(self, tree_type)
V.VineCopula.train_vine = train_vine

_orig_row = V.VineCopula._sample_row
import types, inspect, re
src = inspect.getsource(V.VineCopula._sample_row)
src = src.replace("sampled[current] = new_x", "sampled[current] = np.ravel(new_x)[0]")
import textwrap
ns = {}
exec(textwrap.dedent(src), V.__dict__, ns)
V.VineCopula._sample_row = ns['_sample_row']

from copulas.multivariate import tree as T
src = inspect.getsource(T.Tree.get_likelihood)
src = src.replace("= left_u\n", "= np.ravel(left_u)[0]\n").replace("= right_u\n", "= np.ravel(right_u)[0]\n")
ns = {}
exec(textwrap.dedent(src), T.__dict__, ns)
T.Tree.get_likelihood = ns['get_likelihood']
