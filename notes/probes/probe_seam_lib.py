import numpy as real_np
class RandomProxy:
    def __init__(self, log, script=None): self._log=log; self._script=script
    def __getattr__(self, name):
        realf = getattr(real_np.random, name)
        if name in ('uniform','randint','multivariate_normal','random','normal','choice'):
            def f(*a, **k):
                if self._script and name in self._script:
                    out = self._script[name](*a, **k)
                else:
                    out = realf(*a, **k)
                self._log.append((name, a, k, out)); return out
            return f
        return realf
class NpProxy:
    def __init__(self, log, script=None, poison=None): self.random = RandomProxy(log, script); self._poison=poison
    def empty(self, shape, *a, **k):
        arr = real_np.empty(shape, *a, **k)
        if self._poison is not None: arr[...] = self._poison
        return arr
    def __getattr__(self, name): return getattr(real_np, name)

