import warnings, time, itertools
warnings.simplefilter('ignore')
import numpy as np
from scipy import stats
from copulas.univariate import *
def ks(model, dist, xs):
    return np.max(np.abs(model.cdf(xs) - dist.cdf(xs)))
cells = {
 'beta': (BetaUnivariate, [stats.beta(a,b,loc=l,scale=s) for a in (0.5,1,2,5) for b in (0.5,1,3) for l,s in ((0,1),(-10,4),(100,1000))]),
 'gamma': (GammaUnivariate, [stats.gamma(a,loc=l,scale=s) for a in (0.5,1,2,5,20) for l,s in ((0,1),(-10,4),(100,1000))]),
 't': (StudentTUnivariate, [stats.t(df,loc=l,scale=s) for df in (2,3,5,10,30) for l,s in ((0,1),(-10,4),(100,1000))]),
 'loglaplace': (LogLaplace, [stats.loglaplace(c,loc=l,scale=s) for c in (1.5,2,3,5,10) for l,s in ((0,1),(-10,4),(100,1000))]),
 'truncnorm': (TruncatedGaussian, [stats.truncnorm((lo-m)/s,(hi-m)/s,loc=m,scale=s) for (lo,hi) in ((-1,1),(0,5),(-3,0.5)) for m in (-0.5,0,1) for s in (0.5,1,3)]),
 'gauss': (GaussianUnivariate, [stats.norm(l,s) for l in (-100,0,5) for s in (1e-3,1,50)]),
 'uniform': (UniformUnivariate, [stats.uniform(l,s) for l in (-100,0,5) for s in (1e-3,1,50)]),
}
for name,(cls,dists) in cells.items():
    for n in (200,1000):
        out=[]; t=time.time()
        for kind in ('ideal','rand'):
            worst=[]; 
            for i,d in enumerate(dists):
                if kind=='ideal': x = d.ppf((np.arange(n)+0.5)/n)
                else: x = d.rvs(size=n, random_state=np.random.RandomState(i))
                m = cls()
                try:
                    m.fit(x)
                    xs = d.ppf(np.linspace(0.001,0.999,199))
                    k = ks(m,d,xs)
                except Exception as e:
                    k = 9.0
                worst.append(k)
            worst=np.array(worst); band=3.27/np.sqrt(n)
            out.append(f'{kind}: max={worst.max():.3f} frac_ok={np.mean(worst<=band):.2f} (>band idx {list(np.where(worst>band)[0])[:6]})')
        print(name, n, f'band={band:.3f}', ' | '.join(out), f'{time.time()-t:.1f}s')
