import warnings, itertools, time, collections
warnings.simplefilter('ignore')
import patchfrank
import numpy as np, pandas as pd
from copulas.multivariate.tree import get_tree, Edge
import copulas.bivariate as cb
# memoise select_copula
_orig = cb.select_copula; memo={}
def sel(X):
    k=X.tobytes()
    if k not in memo: memo[k]=_orig(X)
    return memo[k]
cb.select_copula = sel

def lattice_u(n, d, a=76):
    i=np.arange(n)[:,None]; gen=np.array([pow(a,j,n) for j in range(d)])[None,:]
    return ((i*gen) % n + 0.5)/n
from scipy.stats import norm, rankdata
def make_U(d, n=61):
    P=lattice_u(n,d); Zs=norm.ppf(P)
    R=0.5*np.eye(d)+0.5; R[0,1]=R[1,0]=-0.4
    w,v=np.linalg.eigh(R); w=np.clip(w,1e-3,None); L=v*np.sqrt(w)
    X=Zs@L.T
    return np.column_stack([rankdata(X[:,j])/(n+1) for j in range(d)])

def varset(e): return frozenset({e.L,e.R})|frozenset(e.D)
def check_vine(trees, d, vtype):
    errs=[]
    seen_pairs=set()
    for k,t in enumerate(trees, start=1):
        E=t.edges
        if len(E)!=d-k: errs.append(f'T{k}: {len(E)} edges')
        # nodes of tree k: variables (k=1) or edges of tree k-1
        if k==1:
            nodes=list(range(d)); ends=[(e.L,e.R) for e in E]
        else:
            prev=trees[k-2].edges
            ends=[]
            for e in E:
                if e.parents is None or len(e.parents)!=2: errs.append(f'T{k}: no parents'); continue
                idx=[next((i for i,p in enumerate(prev) if p is q),None) for q in e.parents]
                if None in idx or idx[0]==idx[1]: errs.append(f'T{k}: parents not in prev tree')
                ends.append(tuple(idx))
                A,B=varset(e.parents[0]),varset(e.parents[1])
                if len(A&B)!=k-1: errs.append(f'T{k}: proximity fails {sorted(A)} {sorted(B)}')
                if frozenset(e.D)!=A&B: errs.append(f'T{k}: D != intersection')
                if {e.L,e.R}!=set(A^B): errs.append(f'T{k}: conditioned != symdiff')
            nodes=list(range(len(prev)))
        # spanning tree
        parent={n:n for n in nodes}
        def find(x):
            while parent[x]!=x: parent[x]=parent[parent[x]]; x=parent[x]
            return x
        for a,b in ends:
            ra,rb=find(a),find(b)
            if ra==rb: errs.append(f'T{k}: cycle')
            parent[ra]=rb
        if len({find(n) for n in nodes})!=1: errs.append(f'T{k}: disconnected')
        deg=collections.Counter(x for ab in ends for x in ab)
        if vtype=='center' and len(nodes)>2 and max(deg.values())!=len(nodes)-1: errs.append(f'T{k}: not a star')
        if vtype=='direct' and max(deg.values())>2: errs.append(f'T{k}: not a path')
        for e in E:
            if e.L==e.R: errs.append('L==R')
            if len(e.D)!=k-1: errs.append(f'T{k}: |D|={len(e.D)}')
            p=frozenset({e.L,e.R})
            if p in seen_pairs: errs.append(f'pair {sorted(p)} twice')
            seen_pairs.add(p)
    return errs

def canon(trees): return tuple(tuple(((int(e.L),int(e.R),tuple(sorted(int(x) for x in e.D))) for e in t.edges)) for t in trees)
import sys
for d in (int(sys.argv[1]),):
    U=make_U(d)
    pairs=list(itertools.combinations(range(d),2))
    for vtype in ('center','direct','regular'):
        t0=time.time(); states=set(); nfit=0; bad=collections.Counter(); badex={}
        first_level={}
        for perm in itertools.permutations(range(len(pairs))):
            tau=np.eye(d)
            for r,(i,j) in zip(perm,pairs): tau[i,j]=tau[j,i]=0.1+0.12*r
            T1=get_tree(vtype); T1.fit(0,d,tau.copy(),U); nfit+=1
            key=canon([T1])
            if key in first_level: continue
            first_level[key]=T1
        # level 2: enumerate weak orders via 3-level assignments on (d-1 choose 2) pairs
        frontier=[[t] for t in first_level.values()]
        for level in range(1,d-1):
            nxt={}
            ne=d-level; prs=list(itertools.combinations(range(ne),2))
            for trees in frontier:
                for vals in itertools.product((0.1,0.3,0.5),repeat=len(prs)):
                    tau=np.zeros((ne,ne))
                    for (i,j),v in zip(prs,vals): tau[i,j]=tau[j,i]=v
                    trees[-1].edges and [setattr(e,'neighbors',[]) for e in trees[-1].edges]
                    trees[-1]._get_constraints()
                    T=get_tree(vtype); T.fit(level, ne, tau.copy(), trees[-1]); nfit+=1
                    new=trees+[T]; key=canon(new)
                    errs=check_vine(new,d,vtype)
                    for e in errs: bad[e]+=1; badex.setdefault(e,(key,vals))
                    if key not in nxt: nxt[key]=new
            frontier=list(nxt.values()); states|=set(nxt)
        print(d,vtype,'T1 states',len(first_level),'all states',len(states),'fits',nfit,'time',round(time.time()-t0,1),'violations',dict(bad))
        for e,ex in list(badex.items())[:3]: print('   ex',e,ex)
