import warnings, time
warnings.simplefilter('ignore')
import numpy as np, pandas as pd
from scipy import stats
from scipy.stats import norm
from copulas.multivariate import GaussianMultivariate
from copulas.univariate import GaussianUnivariate, GaussianKDE
def korobov(n, d, a, shift):
    i=np.arange(n)[:,None]; gen=np.array([pow(a,j,n) for j in range(d)])[None,:]
    return (((i*gen) % n)/n + shift[None,:] + 0.5/n) % 1.0
def table(n,d,R,margs,a=None,shift=None):
    a = a or {2039:393, 307:75, 1021:331}.get(n, 76)
    shift = np.zeros(d) if shift is None else shift
    P=korobov(n,d,a,shift); P=np.clip(P,0.5/n,1-0.5/n)
    Z=norm.ppf(P); L=np.linalg.cholesky(R); Zc=Z@L.T
    U=norm.cdf(Zc)
    return pd.DataFrame({f'c{j}':margs[j].ppf(U[:,j]) for j in range(d)}), Zc
margs=[stats.norm(3,2), stats.gamma(2,scale=3), stats.beta(2,5,loc=-1,scale=4), stats.uniform(-5,10), stats.t(5), stats.lognorm(0.5)]
for n in (307, 2039):
  for d in (2,3,4):
    for name,R in (('eq.5',0.5*np.eye(d)+0.5),('ar.8',np.array([[0.8**abs(i-j) for j in range(d)] for i in range(d)])),('id',np.eye(d))):
        for sh in (None, np.random.RandomState(1).uniform(size=d), np.random.RandomState(2).uniform(size=d)):
            df,Zc=table(n,d,R,margs,shift=sh)
            emp=np.corrcoef(Zc.T)
            out=[]
            for dist,nm in ((None,'default'),(GaussianKDE,'kde')):
                t=time.time()
                g=GaussianMultivariate(distribution=dist) if dist else GaussianMultivariate(); g.fit(df)
                C=g.correlation.to_numpy(); cerr=np.abs(C-R).max()
                ks=[]
                for j in range(d):
                    q=np.linspace(0.005,0.995,199); xs=margs[j].ppf(q); ks.append(np.max(np.abs(g.univariates[j].cdf(xs)-q)))
                out.append(f'{nm}: corr_err={cerr:.3f} maxKS={max(ks):.3f} ({time.time()-t:.1f}s)')
            print(n,d,name,'shift' if sh is not None else 'noshift', f'lattice_corr_err={np.abs(emp-R).max():.3f}', ' | '.join(out))
