import warnings
warnings.simplefilter('ignore')
import numpy as np, mpmath as mp
from copulas.bivariate import Frank
from probe_biv import Cref
mp.mp.dps=50
grid = [1e-4, 1e-3, 0.01, 0.1, 0.3, 0.5, 0.7, 0.9, 0.99, 0.999, 1-1e-4]
for th in (18.2, 12, 8, -18.2):
    m = Frank(); m.theta=th; m.tau=.5
    C = Cref('frank', th)
    rows=[]
    for u in grid:
        for v in grid:
            c_ref = float(mp.diff(lambda uu,vv: C(uu,vv), (mp.mpf(u),mp.mpf(v)), (1,1)))
            c = m.pdf(np.array([[u,v]]))[0]
            rows.append((abs(c-c_ref)/max(abs(c_ref),1e-300), u, v, c, c_ref))
    rows.sort(reverse=True)
    print(th); [print('   rel=%.2e u=%g v=%g lib=%.6g ref=%.6g'%r) for r in rows[:6]]
