import warnings
warnings.simplefilter('ignore')
import patchfrank
import numpy as real_np, numpy as np, pandas as pd
import copulas.bivariate.base as bbase, copulas.multivariate.gaussian as mg, copulas.multivariate.tree as mt, copulas.multivariate.vine as mv
from copulas.bivariate import Clayton, Frank
from copulas.multivariate import GaussianMultivariate, VineCopula
from copulas.univariate import GaussianUnivariate, GaussianKDE, BetaUnivariate

class RandomProxy:
    def __init__(self, log, script=None): self._log=log; self._script=script
    def __getattr__(self, name):
        realf = getattr(real_np.random, name)
        if name in ('uniform','randint','multivariate_normal','random','normal','choice'):
            def f(*a, **k):
                if self._script and name in self._script:
                    out = self._script[name](*a, **k)
                else:
                    out = realf(*a, **k)
                self._log.append((name, a, k, out)); return out
            return f
        return realf
class NpProxy:
    def __init__(self, log, script=None, poison=None): self.random = RandomProxy(log, script); self._poison=poison
    def empty(self, shape, *a, **k):
        arr = real_np.empty(shape, *a, **k)
        if self._poison is not None: arr[...] = self._poison
        return arr
    def __getattr__(self, name): return getattr(real_np, name)

# record mode on bivariate
log=[]; bbase.np = NpProxy(log)
c=Clayton(random_state=5); c.theta=2.0; c.tau=0.5
st=real_np.random.get_state()[1][:4].copy()
s=c.sample(4)
rs=real_np.random.RandomState(5); v=rs.uniform(0,1,4); cc=rs.uniform(0,1,4)
print('calls', [(n,a) for n,a,k,o in log]); print('v bitwise', (s[:,1]==v).all(), 'global untouched', (real_np.random.get_state()[1][:4]==st).all())
# script mode: lattice
m=64; g=(np.arange(m)+0.5)/m; V,C=np.meshgrid(g,g,indexing='ij'); script_vals=[V.ravel(),C.ravel()]
it=iter(script_vals); log=[]; bbase.np=NpProxy(log, script={'uniform': lambda lo,hi,n: next(it)})
for th in (0.05,2.0,8.0):
    it=iter(script_vals); c=Clayton(); c.theta=th; c.tau=th/(th+2)
    S=c.sample(m*m)
    u=np.sort(S[:,0]); ks=np.max(np.abs(u-(np.arange(m*m)+0.5)/(m*m)))
    from scipy.stats import kendalltau
    idx=np.arange(0,m*m,1)
    tau=kendalltau(S[idx,0],S[idx,1])[0]
    G=[1e-4,1e-3,0.01,0.1,0.3,0.5,0.7,0.9,0.99,0.999,1-1e-4]
    X=np.array([[a,b] for a in G for b in G]); emp=np.array([np.mean((S[:,0]<=a)&(S[:,1]<=b)) for a,b in X])
    print('clayton',th,'margin ks',ks,'tau err',tau-c.tau,'joint err',np.max(np.abs(emp-c.cdf(X))))
bbase.np=real_np
# gaussian record
log=[]; mg.np=NpProxy(log)
rng=real_np.random.RandomState(0); Z=rng.multivariate_normal(np.zeros(3),0.5*np.eye(3)+0.5,size=200)
df=pd.DataFrame(Z,columns=['b','a','c'])
g=GaussianMultivariate(distribution={'b':GaussianUnivariate,'a':GaussianKDE,'c':BetaUnivariate}, random_state=3); g.fit(df)
log.clear(); out=g.sample(5, conditions={'a':0.3})
n,a,k,Zr=log[-1]; print('mvn call mean',a[0],'cov',np.round(a[1],4).tolist(),'size',k)
from scipy.stats import norm
for j,col in enumerate(g.columns):
    if col=='a': continue
    match=[i for i in range(Zr.shape[1]) if np.array_equal(out[col].to_numpy(), g.univariates[j].percent_point(norm.cdf(Zr[:,i])))]
    print(col,'forward-matched Z column',match)
mg.np=real_np
# twin oracle
def twin(make, seed, calls):
    a=make(seed); outs=[a.sample(n) for n in calls]
    b=make(None); real_np.random.set_state(real_np.random.RandomState(seed).get_state()); outs2=[b.sample(n) for n in calls]
    return all(np.array_equal(np.asarray(x),np.asarray(y)) for x,y in zip(outs,outs2))
def mk_g(seed): m=GaussianUnivariate(random_state=seed); m.fit(Z[:,0]); return m
def mk_k(seed): m=GaussianKDE(random_state=seed); m.fit(Z[:,0]); return m
def mk_c(seed): m=Clayton(random_state=seed); m.theta=2.0; m.tau=.5; return m
def mk_f(seed): m=Frank(random_state=seed); m.theta=3.0; m.tau=.3; return m
def mk_m(seed): m=GaussianMultivariate(distribution=GaussianUnivariate, random_state=seed); m.fit(df); return m
def mk_v(seed): m=VineCopula('regular', random_state=seed); m.fit(df); return m
for nm,mk in (('gauss',mk_g),('kde',mk_k),('clayton',mk_c),('frank',mk_f),('gmv',mk_m),('vine',mk_v)):
    print('twin',nm, twin(mk, 11, [1,3,2]))
# poison
for poison in (float('nan'), 0.0, 0.731):
    mt.np=NpProxy([],poison=poison); mv.np=NpProxy([],poison=poison)
    rng=real_np.random.RandomState(0); Z5=rng.multivariate_normal(np.zeros(5),0.5*np.eye(5)+0.5,size=100); df5=pd.DataFrame(Z5,columns=list('abcde'))
    out=[]
    for vt in ('center','direct','regular'):
        v=VineCopula(vt); v.fit(df5,truncated=5)
        out.append((vt,[round(float(e.tau),4) if e.tau is not None else None for t in v.trees for e in t.edges][-4:], v.get_likelihood(np.linspace(.2,.7,5)[None,:])))
    print('poison',poison,out)
