import warnings, itertools
warnings.simplefilter('ignore')
import numpy as np
from copulas.optimize import bisect, chandrupatla
# function families: each returns (f, root) given params, monotone nondecreasing on bracket
def fam(name, r, s):
    if name=='lin': return lambda x: s*(x-r)
    if name=='cub': return lambda x: s*(x-r)**3
    if name=='sat': return lambda x: np.tanh(s*(x-r))
    if name=='exp': return lambda x: np.expm1(np.clip(s*(x-r),-700,700))
    if name=='atan': return lambda x: np.arctan(s*(x-r))
names=['lin','cub','sat','exp','atan']
slopes=[1e-6,1e-3,1,1e3,1e6]
brackets=[(0.,1.),(-5.,5.),(-1e3,1e3),(2.,2.5)]
fracs=[0.0, 1e-9, 0.1, 0.5, 0.731, 1-1e-9, 1.0]
lanes=[]
for n,s,(lo,hi),fr in itertools.product(names,slopes,brackets,fracs):
    lanes.append((n,s,lo,hi,lo+fr*(hi-lo)))
print(len(lanes))
def vecf(ls):
    fs=[fam(n,r,s) for (n,s,lo,hi,r) in ls]
    def f(x):
        x=np.asarray(x,dtype=float)
        return np.array([fs[i](x[i]) for i in range(len(ls))])
    return f
bad={'bisect':0,'chand':0}; worst={'bisect':0,'chand':0}
# solo
for solver,name in ((bisect,'bisect'),(chandrupatla,'chand')):
    res=[]
    for l in lanes:
        f=vecf([l]); lo=np.array([l[2]]); hi=np.array([l[3]])
        try:
            x=solver(f,lo.copy(),hi.copy())[0]
        except Exception as e:
            x=np.nan; 
        w=l[3]-l[2]; r=l[4]
        err=abs(x-r)
        fx=fam(l[0],r,l[1])(x) if np.isfinite(x) else np.nan
        tol = 1e-8 if name=='bisect' else 1e-9*w
        ok = (l[2]<=x<=l[3]) and (err<=tol or (name=='chand' and fx==0))
        if not ok:
            bad[name]+=1
            if bad[name]<=12: print(name,'SOLO BAD',l,'x=',x,'err=',err,'fx=',fx)
        res.append(x)
    print(name,'solo bad',bad[name],'of',len(lanes))
    # batch all lanes together
    f=vecf(lanes); lo=np.array([l[2] for l in lanes]); hi=np.array([l[3] for l in lanes])
    xb=solver(f,lo.copy(),hi.copy())
    nb=0
    for l,x,xs in zip(lanes,xb,res):
        w=l[3]-l[2]; r=l[4]; err=abs(x-r); fx=fam(l[0],r,l[1])(x) if np.isfinite(x) else np.nan
        tol = 1e-8 if name=='bisect' else 1e-9*w
        ok = (l[2]<=x<=l[3]) and (err<=tol or (name=='chand' and fx==0))
        if not ok:
            nb+=1
            if nb<=12: print(name,'BATCH BAD',l,'x=',x,'solo=',xs,'err=',err,'fx=',fx)
    print(name,'batch bad',nb)
