import warnings, time, itertools, traceback
warnings.simplefilter('ignore')
import patchfrank
import numpy as np
from scipy import stats, integrate
from copulas.bivariate import Frank, Clayton, Gumbel
def tau_frank(th):
    D = integrate.quad(lambda x: x/np.expm1(x), 0, abs(th))[0]/abs(th)
    t = 1 - 4/abs(th)*(1-D)
    return np.sign(th)*t
for tau in (-1,-0.99,-0.9,-0.5,-0.1,-1e-3,0,1e-6,1e-3,0.1,0.5,0.8,0.9,0.95,0.99,1):
    out=[]
    for C in (Clayton,Gumbel,Frank):
        c=C(); c.tau=tau
        try:
            c._compute_theta(); s=f'{c.theta:.6g}'
            if C is Frank: s+=f' (tau_back={tau_frank(c.theta):.6f})'
        except Exception as e:
            s=type(e).__name__+':'+str(e)[:40]
        out.append(f'{C.__name__}={s}')
    print(tau, ' | '.join(out))
# actual fit on tiny data
for X in ([[0.1,0.2],[0.3,0.4]], [[0.1,0.9],[0.3,0.4]], [[0.1,0.2],[0.1,0.4],[0.5,0.4]], [[0.2,0.5],[0.4,0.5]], [[0,0],[1,1],[0.5,0.5]], [[0.1,0.2],[0.3,1.2]]):
    X=np.array(X,dtype=float); out=[]
    for C in (Clayton,Gumbel,Frank):
        c=C()
        try: c.fit(X); out.append(f'{C.__name__}: tau={c.tau} theta={c.theta}')
        except Exception as e: out.append(f'{C.__name__}: {type(e).__name__}:{str(e)[:50]}')
    print(X.tolist(), ' | '.join(out))
