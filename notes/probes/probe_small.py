import warnings, itertools, collections, time
warnings.simplefilter('ignore')
import patchfrank
import numpy as np
from copulas.bivariate import select_copula, Frank, Clayton, Gumbel
def weak_orders(n):
    # all rank vectors (dense ranks 0..k-1, every rank used)
    out=set()
    for r in itertools.product(range(n),repeat=n):
        if set(r)==set(range(max(r)+1)): out.add(r)
    return sorted(out)
def compositions(n):
    for mask in range(2**(n-1)):
        r=[0]
        for i in range(n-1): r.append(r[-1]+((mask>>i)&1))
        yield tuple(r)
def taub(x,y):
    n=len(x); c=d=tx=ty=0
    for i in range(n):
        for j in range(i+1,n):
            a=np.sign(x[i]-x[j]); b=np.sign(y[i]-y[j])
            if a==0 and b==0: continue
            if a==0: tx+=1
            elif b==0: ty+=1
            elif a==b: c+=1
            else: d+=1
    den=np.sqrt((c+d+tx)*(c+d+ty))
    return (c-d)/den if den>0 else np.nan
res=collections.Counter(); ex={}; t=time.time(); N=0
for n in (2,3,4,5):
    W=weak_orders(n)
    for cu in compositions(n):
        for rv in W:
            for mapping in ('open','closed'):
                ku=max(cu)+1; kv=max(rv)+1
                if mapping=='open': u=(np.array(cu)+1)/(ku+1); v=(np.array(rv)+1)/(kv+1)
                else:
                    if ku==1 or kv==1: continue
                    u=np.array(cu)/(ku-1); v=np.array(rv)/(kv-1)
                X=np.column_stack([u,v]).astype(float); N+=1
                const = ku==1 or kv==1
                tb=taub(u,v)
                try:
                    c=select_copula(X)
                    key='ok:'+type(c).__name__
                    if const: key='const-no-error'
                    elif abs(c.tau-tb)>1e-12: key='tau-mismatch'
                    elif tb<=0 and type(c).__name__!='Frank': key='nonpos-not-frank'
                except ValueError as e:
                    key='ValueError:'+str(e)[:25] if const else 'ValueError-nonconst:'+str(e)[:40]
                except Exception as e:
                    key=type(e).__name__+':'+str(e)[:50]
                res[key]+=1; ex.setdefault(key,(X.tolist(),tb))
print(N,'datasets',round(time.time()-t,1),'s')
for k,v in res.most_common(): print(v,k,ex[k] if not k.startswith('ok') else '')
