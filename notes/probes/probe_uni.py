import warnings, time
warnings.simplefilter('ignore')
import numpy as np
from scipy import stats, integrate
from copulas.univariate import *
shapes={'normal':stats.norm(),'uniform':stats.uniform(),'expon':stats.expon(),'gamma2':stats.gamma(2),'betaU':stats.beta(0.5,0.5),'beta25':stats.beta(2,5),'t3':stats.t(3),'lognorm':stats.lognorm(0.8)}
def bimodal(q): 
    return np.where(q<0.3, stats.norm(0,1).ppf(np.clip(q/0.3,1e-12,1-1e-12)), stats.norm(10,1).ppf(np.clip((q-0.3)/0.7,1e-12,1-1e-12)))
models={'gauss':GaussianUnivariate,'unif':UniformUnivariate,'beta':BetaUnivariate,'gamma':GammaUnivariate,'t':StudentTUnivariate,'loglap':LogLaplace,'trunc':TruncatedGaussian,'kde':GaussianKDE,'kde_silv':lambda: GaussianKDE(bw_method='silverman'),'kde_1.0':lambda: GaussianKDE(bw_method=1.0),'wrapper':Univariate}
Q=np.array([1e-6,0.01,0.05,0.1,0.25,0.5,0.75,0.9,0.95,0.99,1-1e-6])
worst={}
for mname,mk in models.items():
    w=dict(rt=0,inv=0,integ=0,mono=0,rng=0,logp=0); nfit=0; nfail=0; t=time.time()
    for sname,dist in list(shapes.items())+[('bimodal',None)]:
        for loc,scale in ((0,1),(5,1e-3),(-1e3,1e3)):
            for n in (6,200):
                q=(np.arange(n)+0.5)/n
                x=(bimodal(q) if dist is None else dist.ppf(q))*scale+loc
                m=mk()
                try: m.fit(x); nfit+=1
                except Exception as e: nfail+=1; continue
                try:
                    xs=m.percent_point(Q); c=m.cdf(xs)
                    w['rt']=max(w['rt'],np.nanmax(np.abs(c-Q)))
                    pts=np.sort(np.concatenate([xs[np.isfinite(xs)], x[::max(1,n//20)]]))
                    cd=m.cdf(pts); pd_=m.pdf(pts)
                    w['mono']=max(w['mono'],-np.min(np.diff(cd))); w['rng']=max(w['rng'],-cd.min(),cd.max()-1)
                    ok=(pd_>0)&(cd>1e-6)&(cd<1-1e-6)
                    back=m.percent_point(cd[ok]); w['inv']=max(w['inv'],np.max(np.abs(back-pts[ok]))/max(np.std(x),1e-300))
                    lp=m.log_probability_density(pts[pd_>0]); w['logp']=max(w['logp'],np.max(np.abs(lp-np.log(pd_[pd_>0]))))
                    for a,b in zip(xs[1:-2],xs[2:-1]):
                        if not (np.isfinite(a) and np.isfinite(b)) or a==b: continue
                        val,err=integrate.quad(lambda z: float(np.ravel(m.pdf(np.array([z])))[0]), a, b, limit=200)
                        w['integ']=max(w['integ'],abs(val-(m.cdf(np.array([b]))[0]-m.cdf(np.array([a]))[0])))
                except Exception as e:
                    print('   EXC',mname,sname,loc,scale,n,type(e).__name__,str(e)[:80])
    print(f'{mname:9s} fits={nfit} failed={nfail} '+' '.join(f'{k}={v:.2e}' for k,v in w.items()), f'{time.time()-t:.0f}s')
